"""E-OWN (ownership typestate of the storage block of an owning container).

For each method of an owning class the block held on entry is tracked through the CFG:
  field  : OWN (the storage field still points to the entry block) | NEW (retargeted)
  entry  : live | released | handed (returned to the caller / adopted by another owner)
  saved  : locals that hold the entry block's address
Events: L = Storage()  (save) ; Deallocate(Storage()) / deallocate() (release) ; Deallocate(L) (release) ;
        setStorage/allocate/clearStorage... (retarget) ; return L (hand over) ; calls of other methods of the class use
        summaries (frees / retargets, computed to a fixpoint from the model).
Obligations:
  O1  a retarget happens only when the entry block is released, handed over, saved in a local, or known null
      (constructor, or on the true edge of `Capacity() == 0` / `IsEmpty()`-style tests)
  O1x at every exit the entry block is still owned by the field, or was released / handed over (a saved but never
      released block is a leak)
  O4  the entry block is not released twice
"""
from qlib import astq, dataflow
from qlib.report import Rule

CLASSES = {
    "Qentem::Array": {"field": "storage_", "getters": {"Storage", "First"}, "null_tests": {"Capacity", "IsEmpty"}},
    "Qentem::String": {"field": "storage_", "getters": {"Storage", "First"}, "null_tests": set()},
    "Qentem::StringStream": {"field": "storage_", "getters": {"Storage", "First"}, "null_tests": {"Capacity"}},
    "Qentem::HashTable": {"field": "hashTable_", "getters": {"getHashTable"}, "null_tests": {"Capacity"}},
}


def own_call(f, c):
    rc = f.call_receiver(c)
    return rc is None or f.nodes[f.strip(rc)]["k"] == "CXXThisExpr"


def summaries(m, cls, spec):
    fns = [f for f in m.functions if not f.inst and f.cls == cls and f.cfg]
    names = set(f.name for f in fns)
    frees, retargets = {}, {}
    calls = {}
    for f in fns:
        fr = rt = False
        own = set()
        for i in f.walk():
            n = f.nodes[i]
            if n["k"] == "BinaryOperator" and n["op"] == "=" and f.text(n["ch"][0]) in (spec["field"], "this." + spec["field"]):
                rt = True
            if n["k"] in ("CallExpr", "CXXMemberCallExpr"):
                nm = f.call_simple_name(i)
                if nm == "Deallocate":
                    a = f.call_args(i)
                    if a and block_expr(f, a[0], spec, set()):
                        fr = True
                    elif a and f.nodes[f.strip(a[0])]["k"] == "DeclRefExpr":
                        fr = True   # a saved local (decided precisely in the per-method pass)
                if nm in names and own_call(f, i):
                    own.add(nm)
        frees[f.name] = frees.get(f.name, False) or fr
        retargets[f.name] = retargets.get(f.name, False) or rt
        calls[f.name] = calls.get(f.name, set()) | own
    hands = {}
    for f in fns:
        h = False
        saved_locals = set()
        for i in f.walk():
            n = f.nodes[i]
            if n["k"] == "DeclStmt":
                for d in n["decls"]:
                    if d.get("tk") == "ptr" and d.get("init", -1) >= 0 and block_expr(f, d["init"], spec, set()) == "field":
                        saved_locals.add(d["d"])
        for r_ in astq.returns(f):
            v = f.nodes[r_].get("val", -1)
            if v is not None and v >= 0 and block_expr(f, v, spec, saved_locals):
                h = True
        hands[f.name] = hands.get(f.name, False) or h
    changed = True
    while changed:
        changed = False
        for nm, own in calls.items():
            for o in own:
                if frees.get(o) and not frees[nm]:
                    frees[nm] = True
                    changed = True
                if retargets.get(o) and not retargets[nm]:
                    retargets[nm] = True
                    changed = True
    return fns, frees, retargets, hands


def block_expr(f, nid, spec, saved):
    """does the expression denote the block currently held by the field (Storage() / field / a saved local)"""
    s = f.strip_casts(nid)
    n = f.nodes[s]
    if n["k"] in ("CallExpr", "CXXMemberCallExpr") and f.call_simple_name(s) in spec["getters"] and own_call(f, s) and not f.call_args(s):
        return "field"
    if n["k"] in ("MemberExpr",) and n.get("n") == spec["field"]:
        b = n.get("ch", [])
        if not b or f.nodes[f.strip(b[0])]["k"] == "CXXThisExpr":
            return "field"
    if n["k"] == "DeclRefExpr" and n.get("d") in saved:
        return "saved"
    return None


def analyse(m, f, spec, frees, retargets, hands=None):
    """returns [(rule, nid, ok, why)]"""
    blocks = f.blocks()
    entry = f.cfg["entry"]
    is_ctor = f.kind in ("ctor", "copyctor", "movector")
    # state: (field, entry, frozenset(saved decl ids))
    init = ("NEW" if is_ctor else "OWN", "none" if is_ctor else "live", frozenset())
    states = {entry: {init}}
    work = [entry]
    findings = []
    seen_f = set()

    def note(rule, nid, why):
        if (rule, nid) not in seen_f:
            seen_f.add((rule, nid))
            findings.append((rule, nid, False, why))

    def step(st, e, record):
        if "n" not in e or e.get("k"):
            return st
        field, ent, saved = st
        nid = e["n"]
        n = f.nodes[nid]
        k = n["k"]
        if k == "DeclStmt":
            for d in n["decls"]:
                if d.get("tk") == "ptr" and d.get("init", -1) >= 0 and field == "OWN" and block_expr(f, d["init"], spec, saved) == "field":
                    saved = saved | {d["d"]}
            return (field, ent, saved)
        if k == "BinaryOperator" and n["op"] == "=":
            lhs = f.nodes[f.strip(n["ch"][0])]
            if lhs["k"] == "DeclRefExpr" and lhs.get("tk") == "ptr":
                if field == "OWN" and block_expr(f, n["ch"][1], spec, saved) == "field":
                    saved = saved | {lhs["d"]}
                elif lhs["d"] in saved:
                    saved = saved - {lhs["d"]}
            if f.text(n["ch"][0]) in (spec["field"], "this." + spec["field"]):
                return retarget(st, nid, record)
            return (field, ent, saved)
        if k in ("CallExpr", "CXXMemberCallExpr"):
            nm = f.call_simple_name(nid)
            if nm == "Deallocate":
                a = f.call_args(nid)
                what = block_expr(f, a[0], spec, saved) if a else None
                if (what == "field" and field == "OWN") or what == "saved":
                    if ent == "released" and record:
                        note("O4", nid, "the block held on entry is released twice on this path")
                    return (field, "released" if ent in ("live", "released") else ent, saved)
                return st
            if own_call(f, nid) and nm in frees:
                fr, rt = frees.get(nm, False), retargets.get(nm, False)
                if rt and not fr and hands and hands.get(nm):
                    # Detach()-style: the block leaves through the return value (the caller adopts it)
                    return ("NEW", "handed" if ent == "live" else ent, saved)
                if fr and rt:
                    # a complete operation of the class: it disposes of the current block itself (checked on its own)
                    if field == "OWN":
                        return ("NEW", "released" if ent == "live" else ent, saved)
                    return ("NEW", ent, saved)
                if fr:
                    if field == "OWN":
                        if ent == "released" and record:
                            note("O4", nid, "the block held on entry is released twice on this path")
                        return (field, "released" if ent in ("live", "released") else ent, saved)
                    return st
                if rt:
                    return retarget(st, nid, record)
            return st
        if k == "ReturnStmt":
            v = n.get("val", -1)
            if v is not None and v >= 0 and block_expr(f, v, spec, saved) and ent == "live":
                return (field, "handed", saved)
        return st

    def retarget(st, nid, record):
        field, ent, saved = st
        if field == "OWN" and ent == "live" and not saved and record:
            note("O1", nid, "the storage field is overwritten while it still holds the block owned on entry: nothing released it, "
                            "saved it in a local or proved it null")
        return ("NEW", ent, saved)

    def edge(st, cond, truth):
        field, ent, saved = st
        t = f.text(cond).replace(" ", "").replace("(", "").replace(")", "")
        cn = f.nodes[f.strip(cond)]
        if cn["k"] == "BinaryOperator" and cn["op"] in ("==", "!="):
            a, b = f.nodes[f.strip(cn["ch"][0])], f.nodes[f.strip_casts(cn["ch"][1])]
            if a["k"] == "DeclRefExpr" and a.get("d") in saved and b["k"] in ("CXXNullPtrLiteralExpr", "GNUNullExpr"):
                if (cn["op"] == "==") == truth and ent == "live":
                    return (field, "none", saved)
        for g in spec["null_tests"] | spec["getters"]:
            if (t in ("%s==0" % g, "%s==nullptr" % g) and truth) or (t in ("%s!=0" % g, "%s!=nullptr" % g) and not truth) or \
                    (t == "IsEmpty" and truth and "IsEmpty" in spec["null_tests"]) or (t == "IsNotEmpty" and not truth and "IsEmpty" in spec["null_tests"]):
                if field == "OWN" and ent == "live":
                    return (field, "none", saved)
        return st

    it = 0
    while work:
        it += 1
        if it > 4000:
            break
        bid = work.pop()
        outs = set()
        for st in states[bid]:
            for e in blocks[bid]["el"]:
                st = step(st, e, False)
            outs.add(st)
        for (s, kind, payload) in dataflow.successors(f, blocks[bid]):
            o2 = set(edge(st, payload, kind == "true") if kind in ("true", "false") else st for st in outs)
            if s not in states:
                states[s] = set(o2)
                work.append(s)
            elif not o2 <= states[s]:
                states[s] |= o2
                work.append(s)
    ex = f.cfg["exit"]
    for bid, sts in states.items():
        for st in sts:
            cur = st
            for e in blocks[bid]["el"]:
                cur = step(cur, e, True)
            for (s_, kind_, payload_) in dataflow.successors(f, blocks[bid]):
                if s_ != ex:
                    continue
                field, ent, saved = edge(cur, payload_, kind_ == "true") if kind_ in ("true", "false") else cur
                if ent == "live" and field == "NEW" and f.kind != "dtor":
                    last = [e["n"] for e in blocks[bid]["el"] if isinstance(e.get("n"), int) and not e.get("k")]
                    note("O1x", last[-1] if last else f.body,
                         "on this exit the block owned on entry is neither released nor handed over, and the storage field points elsewhere (leak)")
                if f.kind == "dtor" and ent == "live":
                    last = [e["n"] for e in blocks[bid]["el"] if isinstance(e.get("n"), int) and not e.get("k")]
                    note("O2", last[-1] if last else f.body, "the destructor can return without releasing the block")
    return findings


ADOPT = {"setStorage": "clearStorage", "setHashTable": "clearHashTable"}


def adoption_findings(f, spec):
    """O3: `setStorage(src.Storage())` adopts another owner's block; on every path from there to the exit the source must
    give the block up (`src.clearStorage()`), or both owners release it."""
    out = []
    pnames = set(p["n"] for p in f.params)
    for c in astq.calls(f):
        nm = f.call_simple_name(c)
        if nm not in ADOPT or not own_call(f, c):
            continue
        a = f.call_args(c)
        if len(a) != 1:
            continue
        an = f.strip_casts(a[0])
        n = f.nodes[an]
        if n["k"] not in ("CallExpr", "CXXMemberCallExpr") or f.call_simple_name(an) not in spec["getters"] or f.call_args(an):
            continue
        rc = f.call_receiver(an)
        if rc is None:
            continue
        src = f.text(rc)
        if src not in pnames:
            continue
        clears = [x for x in astq.calls(f, ADOPT[nm]) if f.call_receiver(x) is not None and f.text(f.call_receiver(x)) == src]
        cb = dataflow.block_of(f, c)
        blocks = f.blocks()
        clear_blocks = {}
        for x in clears:
            clear_blocks.setdefault(dataflow.block_of(f, x), []).append(x)
        ok = False
        if cb in clear_blocks and any(x > c for x in clear_blocks[cb]):
            ok = True
        else:
            seen, work = set(), [s_ for (s_, k_, p_) in dataflow.successors(f, blocks[cb])]
            ok = True
            while work:
                b = work.pop()
                if b in seen or b in clear_blocks:
                    continue
                seen.add(b)
                if b == f.cfg["exit"]:
                    ok = False
                    break
                work += [s_ for (s_, k_, p_) in dataflow.successors(f, blocks[b])]
        out.append((c, src, ok))
    # constructors: storage_{src.storage_} / storage_{src.Storage()} in the initialiser list
    for ini in f.d.get("inits", []) or []:
        if ini.get("field") != spec["field"] or ini.get("n", -1) < 0:
            continue
        src = None
        for x in f.walk(ini["n"]):
            nx = f.nodes[x]
            if nx["k"] in ("MemberExpr", "CXXDependentScopeMemberExpr") and (nx.get("n") == spec["field"] or nx.get("n") in spec["getters"]):
                b = nx.get("ch", [])
                if b and f.nodes[f.strip(b[0])]["k"] == "DeclRefExpr" and f.nodes[f.strip(b[0])].get("n") in pnames:
                    src = f.nodes[f.strip(b[0])]["n"]
        if src is None:
            continue
        clear = ADOPT["setStorage" if spec["field"] == "storage_" else "setHashTable"]
        clears = set(dataflow.block_of(f, x) for x in astq.calls(f, clear) if f.call_receiver(x) is not None and f.text(f.call_receiver(x)) == src)
        blocks = f.blocks()
        seen, work, ok = set(), [f.cfg["entry"]], True
        while work:
            b = work.pop()
            if b in seen or b in clears:
                continue
            seen.add(b)
            if b == f.cfg["exit"]:
                ok = False
                break
            work += [s_ for (s_, k_, p_) in dataflow.successors(f, blocks[b])]
        out.append((ini["n"], src, ok))
    return out


def rule_ownership(ctx, m):
    r = Rule("O1-O4", "storage blocks: released before overwrite, released in the destructor, never twice, never lost", floor=40)
    for cls, spec in CLASSES.items():
        fns, frees, retargets, hands = summaries(m, cls, spec)
        for f in fns:
            if f.name in ("setStorage", "clearStorage", "setHashTable", "clearHashTable", "allocate"):
                continue   # the primitives themselves; every caller is analysed
            if retargets.get(f.name) and not frees.get(f.name) and f.d.get("access") == "private" and f.kind == "method":
                continue   # private retarget-only helpers (copyString, copyArray, copyTable): callers see a retarget event
            touches = frees.get(f.name) or retargets.get(f.name) or f.kind in ("dtor", "movector")
            if not touches:
                continue
            ctx.note_fn(f)
            found = analyse(m, f, spec, frees, retargets, hands)
            for (c, src, ok) in adoption_findings(f, spec):
                r.ob(f.sig, "O3: %s" % f.text(c)[:70], ok, "the block adopted from `%s` %s" % (src, "is given up by the source on every path to the exit" if ok else
                     "stays in the source as well on some path to the exit: both owners will release it"), f.loc(c))
            if not found:
                r.ob(f.sig, "ownership of the storage block", True, "every path releases, keeps or hands over the block owned on entry", "%s:%d" % (f.file.split("/Include/")[-1], f.line))
            for (rule, nid, ok, why) in found:
                r.ob(f.sig, "%s: %s" % (rule, f.text(nid)[:70]), False, why, f.loc(nid))
    return r


RECURSIVE = {"Qentem::Value", "Qentem::Array", "Qentem::HashTable", "Qentem::HArray", "Qentem::HList", "Qentem::QExpression"}
RELEASE_PRIMS = {"Deallocate", "Dispose"}


def class_release_methods(m, cls, family=()):
    """member functions of cls that (through their own class) destroy or release what the object owns"""
    fns = [f for f in m.functions if not f.inst and f.cls in (cls,) + tuple(family) and f.cfg]
    names = set(f.name for f in fns)
    direct, calls = {}, {}
    for f in fns:
        d = False
        own = set()
        for c in astq.calls(f):
            nm = f.call_simple_name(c)
            rc = f.call_receiver(c)
            if nm in RELEASE_PRIMS:
                d = True
            elif rc is None or f.nodes[f.strip(rc)]["k"] == "CXXThisExpr":
                if nm in names:
                    own.add(nm)
            else:
                # a releasing operation on a member container of this object
                rn = f.nodes[f.strip(rc)]
                if rn["k"] in ("MemberExpr", "CXXDependentScopeMemberExpr") and nm in ("Reset", "Clear", "reset", "Drop", "Resize", "Compress"):
                    base = rn.get("ch", [])
                    if not base or f.nodes[f.strip(base[0])]["k"] in ("CXXThisExpr", "MemberExpr"):
                        d = True
        direct[f.name] = direct.get(f.name, False) or d
        calls[f.name] = calls.get(f.name, set()) | own
    rel = set(k for k, v in direct.items() if v)
    changed = True
    while changed:
        changed = False
        for k, own in calls.items():
            if k not in rel and own & rel:
                rel.add(k)
                changed = True
    return rel


def rule_descendant(ctx, m):
    """O12: an argument of the object's own type may be an element the object owns (v = v["child"], cache = Move(cache[0]...SubTags)).
    Once the object has released what it owns, such an argument is gone: it must not be read afterwards."""
    r = Rule("O12-descendant", "a same-type argument is not read after the object released what it owns (it may be a descendant)", floor=6)
    fam = {"Qentem::HArray": ("Qentem::HashTable",), "Qentem::HList": ("Qentem::HashTable",)}
    for cls in sorted(RECURSIVE):
        rel = class_release_methods(m, cls, fam.get(cls, ()))
        short = cls.split("::")[-1]
        for f in m.functions:
            if f.inst or f.cls != cls or not f.cfg or f.is_static or f.kind in ("ctor", "copyctor", "movector", "dtor"):
                continue
            # instances: the assignment operators of every recursive container (their own comments expect "a child array"), and
            # every member of Value, whose elements are handed out as Value & by operator[]
            if cls != "Qentem::Value" and f.name != "operator=":
                continue
            ps = [p for p in f.params if p.get("ref") and (short in p["t"].replace("const ", "").split("<")[0].split("::")[-1] or p["t"].replace("const ", "").strip().startswith(short))]
            if cls == "Qentem::Value":
                # ... and everything else a Value can hold: an object, an array or a string handed in by reference may be the
                # payload of one of this value's own members, a character pointer may point into its own string
                for p in f.params:
                    t_ = p["t"].replace("const ", "")
                    if p in ps:
                        continue
                    if p.get("ref") and any(k_ in t_ for k_ in ("ObjectT", "ArrayT", "StringT")) and "StringViewT" not in t_:
                        ps.append(p)
                    elif p.get("ptr") and t_.replace(" ", "") == "Char_T*" and p.get("pconst"):
                        ps.append(p)
            if not ps:
                continue
            for p in ps:
                ctx.note_fn(f)
                # forward may-analysis: has a releasing operation on *this happened?
                blocks = f.blocks()
                state = {f.cfg["entry"]: None}
                work = [f.cfg["entry"]]
                hits = []

                def rel_event(e):
                    if "n" not in e or e.get("k"):
                        return None
                    n = f.nodes[e["n"]]
                    if n["k"] in ("CompoundAssignOperator", "BinaryOperator", "CXXOperatorCallExpr") and n.get("op") == "+=":
                        # appending to a member container may move the block that holds this object's elements
                        lhs = f.call_args(e["n"])[0] if n["k"] == "CXXOperatorCallExpr" else n["ch"][0]
                        ln = f.nodes[f.strip(lhs)]
                        if ln["k"] in ("MemberExpr", "CXXDependentScopeMemberExpr") and ln.get("tk") in ("rec", "dep", None, "other"):
                            base = ln.get("ch", [])
                            if (not base or f.nodes[f.strip(base[0])]["k"] in ("CXXThisExpr", "MemberExpr")) and ln.get("n") in ("array_", "object_"):
                                return f.text(e["n"])[:60]
                        return None
                    if n["k"] not in ("CallExpr", "CXXMemberCallExpr", "CXXOperatorCallExpr"):
                        return None
                    nm = f.call_simple_name(e["n"])
                    rc = f.call_receiver(e["n"])
                    if nm in RELEASE_PRIMS:
                        a = f.call_args(e["n"])
                        # releasing something reached from the argument itself does not count
                        if a and any(f.nodes[x].get("n") == p["n"] for x in f.walk(a[0]) if f.nodes[x]["k"] == "DeclRefExpr"):
                            return None
                        return f.text(e["n"])
                    if (rc is None or f.nodes[f.strip(rc)]["k"] == "CXXThisExpr") and nm in rel and n["k"] != "CXXOperatorCallExpr":
                        # an object known to own nothing releases nothing
                        for bb in f.cfg["blocks"]:
                            c_ = bb.get("cond")
                            if c_ is not None and f.text(c_).replace("this.", "").replace(" ", "") in ("isUndefined()", "(isUndefined())") and \
                                    dataflow.dominated_by_branch(f, e["n"], c_, True):
                                return None
                        return f.text(e["n"])
                    if rc is not None:
                        rn = f.nodes[f.strip(rc)]
                        if rn["k"] in ("MemberExpr", "CXXDependentScopeMemberExpr") and nm in ("Reset", "Clear", "reset"):
                            base = rn.get("ch", [])
                            if not base or f.nodes[f.strip(base[0])]["k"] == "CXXThisExpr":
                                return f.text(e["n"])
                    return None
                it = 0
                while work:
                    it += 1
                    if it > 3000:
                        break
                    bid = work.pop()
                    st = state[bid]
                    for e in blocks[bid]["el"]:
                        ev = rel_event(e)
                        if ev and st is None:
                            st = ev
                    for (s_, kind, payload) in dataflow.successors(f, blocks[bid]):
                        if s_ not in state:
                            state[s_] = st
                            work.append(s_)
                        elif state[s_] is None and st is not None:
                            state[s_] = st
                            work.append(s_)
                # pointers / references taken from the parameter (src_val = val.array_.Storage()) stand for it
                derived = {p["d"]}
                if cls == "Qentem::Value":
                    grew = True
                    while grew:
                        grew = False
                        for ds in astq.nodes_of(f, "DeclStmt"):
                            for d_ in f.nodes[ds]["decls"]:
                                if "d" in d_ and d_["d"] not in derived and d_.get("init", -1) >= 0 and (d_.get("tk") == "ptr" or d_.get("ref")) and \
                                        any(f.nodes[y]["k"] == "DeclRefExpr" and f.nodes[y].get("d") in derived for y in f.walk(d_["init"])):
                                    derived.add(d_["d"])
                                    grew = True
                for bid, st in state.items():
                    for e in blocks[bid]["el"]:
                        if "n" in e and not e.get("k"):
                            n = f.nodes[e["n"]]
                            if st is not None and n["k"] == "DeclRefExpr" and n.get("d") in derived:
                                hits.append((e["n"], st))
                            ev = rel_event(e)
                            if ev and st is None:
                                st = ev
                            # a container OF the argument handed to the growth of this object's own container of the same kind: the
                            # callee walks it while this object's storage is rebuilt (v += v["a"] with both objects)
                            if cls == "Qentem::Value" and n["k"] in ("CompoundAssignOperator", "BinaryOperator", "CXXOperatorCallExpr") and n.get("op") == "+=":
                                lhs_ = f.call_args(e["n"])[0] if n["k"] == "CXXOperatorCallExpr" else n["ch"][0]
                                rhs_ = f.call_args(e["n"])[1] if n["k"] == "CXXOperatorCallExpr" else n["ch"][1]
                                ln_ = f.nodes[f.strip(lhs_)]
                                rn_ = f.nodes[f.strip(rhs_)]
                                if ln_["k"] in ("MemberExpr", "CXXDependentScopeMemberExpr") and ln_.get("n") in ("object_", "array_") and \
                                        rn_["k"] in ("MemberExpr", "CXXDependentScopeMemberExpr") and rn_.get("n") == ln_.get("n") and rn_.get("ch") and \
                                        f.nodes[f.strip(rn_["ch"][0])].get("d") == p["d"] and not p.get("rref"):
                                    hits.append((e["n"], "the growth of `%s` itself" % ln_["n"]))
                if hits:
                    nid, why = hits[0]
                    par = f.parents().get(nid, nid)
                    r.ob(f.sig, "parameter `%s`" % p["n"], False, "`%s` is read at %s (`%s`) after `%s` released what this object owns; when `%s` is an element of this object "
                         "(x = x[i]) it has just been destroyed" % (p["n"], f.loc(nid), f.text(par)[:50], why, p["n"]), f.loc(nid))
                else:
                    r.ob(f.sig, "parameter `%s`" % p["n"], True, "every read of `%s` precedes the release of this object's own contents" % p["n"], "%s:%d" % (f.file.split("/Include/")[-1], f.line))
    return r


def rule_fresh_slot(ctx, m):
    """O11: Memory::Initialize(&(item->Value) ...) constructs in place; the slot must be raw storage, i.e. `item` must come from
    insert() on every path reaching the call -- an item found by find() holds a live value that would be overwritten unreleased."""
    r = Rule("O11-fresh", "a value is constructed in place only in a slot that insert() has just created", floor=4)
    for f in m.functions:
        if f.inst or f.cls not in ("Qentem::HArray", "Qentem::HList", "Qentem::HashTable") or not f.cfg:
            continue
        sites = []
        for c in astq.calls(f, "Initialize"):
            a = f.call_args(c)
            if not a:
                continue
            an = f.nodes[f.strip(a[0])]
            if an["k"] == "UnaryOperator" and an["op"] == "&":
                mn = f.nodes[f.strip(an["ch"][0])]
                if mn["k"] in ("MemberExpr", "CXXDependentScopeMemberExpr") and mn.get("ch"):
                    bn = f.nodes[f.strip(mn["ch"][0])]
                    if bn["k"] == "DeclRefExpr" and bn.get("dk") == "var":
                        sites.append((c, bn["d"], bn["n"]))
        if not sites:
            continue
        ctx.note_fn(f)
        blocks = f.blocks()

        def kind_of(nid):
            s = f.strip_casts(nid)
            n = f.nodes[s]
            if n["k"] in ("CallExpr", "CXXMemberCallExpr"):
                nm = f.call_simple_name(s)
                return nm if nm in ("insert", "find") else "other:" + (nm or "?")
            if f.text(s).replace(" ", "").replace("this.", "") in ("(Storage()+Size())", "Storage()+Size()"):
                return "insert"   # the first slot past the used ones: raw storage
            return "other"

        def step(st, e):
            if "n" not in e or e.get("k"):
                return st
            n = f.nodes[e["n"]]
            if n["k"] == "DeclStmt":
                for d in n["decls"]:
                    if "d" in d and d.get("tk") == "ptr":
                        st = dict(st)
                        st[d["d"]] = frozenset([kind_of(d["init"])]) if d.get("init", -1) >= 0 else frozenset(["uninit"])
            elif n["k"] == "BinaryOperator" and n["op"] == "=":
                lhs = f.nodes[f.strip(n["ch"][0])]
                if lhs["k"] == "DeclRefExpr" and lhs.get("tk") == "ptr":
                    st = dict(st)
                    st[lhs["d"]] = frozenset([kind_of(n["ch"][1])])
            return st
        states = {f.cfg["entry"]: {}}
        work = [f.cfg["entry"]]
        it = 0
        while work:
            it += 1
            if it > 3000:
                break
            bid = work.pop()
            st = states[bid]
            for e in blocks[bid]["el"]:
                st = step(st, e)
            for (s_, kind, payload) in dataflow.successors(f, blocks[bid]):
                st2 = st
                # on the edge `item == nullptr` true / `item != nullptr` false the found item is gone
                if kind in ("true", "false") and payload is not None:
                    cn = f.nodes[f.strip(payload)]
                    if cn["k"] == "BinaryOperator" and cn["op"] in ("==", "!="):
                        a_, b_ = f.nodes[f.strip(cn["ch"][0])], f.nodes[f.strip_casts(cn["ch"][1])]
                        if a_["k"] == "DeclRefExpr" and b_["k"] in ("CXXNullPtrLiteralExpr", "GNUNullExpr") and ((cn["op"] == "==") == (kind == "true")):
                            st2 = dict(st)
                            st2[a_["d"]] = frozenset(["null"])
                old = states.get(s_)
                if old is None:
                    states[s_] = dict(st2)
                    work.append(s_)
                else:
                    new = dict(old)
                    ch = False
                    for k_, v_ in st2.items():
                        if not v_ <= new.get(k_, frozenset()):
                            new[k_] = new.get(k_, frozenset()) | v_
                            ch = True
                    if ch:
                        states[s_] = new
                        work.append(s_)
        for (c, d, name) in sites:
            bid = dataflow.block_of(f, c)
            st = states.get(bid, {})
            for e in blocks[bid]["el"]:
                if e.get("n") == c:
                    break
                st = step(st, e)
            defs = st.get(d, frozenset(["?"]))
            ok = defs <= frozenset(["insert"])
            r.ob(f.sig, f.text(c)[:60], ok, "`%s` comes from %s here%s" % (name, sorted(defs), "" if ok else
                 ": a slot returned by find() holds a live value; constructing over it drops what that value owns without releasing it"), f.loc(c))
    return r
