import re
"""C10 -- number to text (thin: digit tables, IEEE parameter tables, buffer sizes, index bounds)."""
from qlib import astq, tab, pwl
from qlib.bitsym import Unrecognised
from qlib.model import AnalysisBroken
from qlib.report import Rule

META = {
    "explanation": "Thin structural check. (TB-digits) DigitTable1 is \"00\"..\"99\" and DigitTable2 \"0\"..\"9\"; "
                   "(X3-index) every index into them in IntToString is proven inside the table by interval "
                   "evaluation ((n % 100) * 2 + 1 <= 199; n < 10 after the loop) and every instantiation of IntToString "
                   "receives an UNSIGNED number (a negative value would skip the digit loop and index the table below "
                   "zero); (TB-ieee) for each RealNumberInfo variant 1 + E + M == bits, masks contiguous/disjoint, "
                   "LeadingBit == 1 << M, Bias == 2^(E-1) - 1; (TB-buffer) the integer buffer formula covers the decimal "
                   "digits of every width; (TB-digitstring) inf/nan/zeros literals and lengths in the five character "
                   "specialisations, insertZeros chunking; power tables (shared with C09); (BORROW) no storage pointer "
                   "obtained from the stream is used after a call that may reallocate it, in Digit.hpp and "
                   "StringStream::InsertAt. Not decided: digit correctness and rounding against printf.",
    "not_decided": "digit-exact equality with printf for all values, precisions and formats",
    "assumptions": [],
}
META["explanation"] += " " + "(ZB-past, shared with C01/C17) no raw access to the stream's buffer in the formatter is provably at or beyond Length(), or in front of started_at, on some path."
META["explanation"] += " " + "(PR-point) in formatStringNumberFixed / formatStringNumberDefault every loop that skips zero digits while the decimal-point position is in scope is bounded by that position, and the count of zeros written back after a carry is not taken from the caller's estimated digit count."
META["explanation"] += " " + '(LOSS-sticky) abstract paths through realToString: every shift or division that drops bits or digits of the big integer is followed, on every path to a formatter, by an assignment of the round-up flag (shifts by the trailing-zero count or by a literally-zero amount are lossless). (ROUND-lower) the flag handed to roundStringNumber includes a scan of the digits below the rounding position. (SHIFT-width, shared with C19) every shift of a BigInt word is by less than the word width.'
META["explanation"] += " " + '(DOT-digit) every append of the decimal point is followed by an unconditional digit or by a run of `precision` zeros reached only where precision != 0 was established (must-analysis). (P0-map) NumberToString maps (Default, precision 0) to precision 1 before the number is formatted.'


META["explanation"] += " " + '(STICKY-src) every disjunct of the flag handed to roundStringNumber, and of every definition of the locals it mentions, is a bool parameter, one of those locals, the literal false, or a comparison of a digit-string unit with DigitChar::Zero. (STICKY-keep) a bool local that accumulates (|=, or an expression containing itself) is not plainly overwritten on any path after it accumulated. (REL-length) in the formatters that take started_at, stream.Length() (or a local copy of it) is never compared with a literal: lengths of the number are Length() - started_at.'

META["explanation"] += " " + 'Taken over unchanged from other modules because a seeded change to this property was reported by them (rules.common.shared): SB-bytes from C14.'

def _run_own(ctx):
    m = ctx.pattern()
    rules = []

    r = Rule("TB-digits", "digit pair table and digit table spell 00..99 and 0..9", floor=2)
    t1 = [v for v in m.vars if v["q"] == "Qentem::DigitUtils::DigitTable1"]
    t2 = [v for v in m.vars if v["q"] == "Qentem::DigitUtils::DigitTable2"]
    if not t1 or not t2:
        raise AnalysisBroken("DigitTable1/DigitTable2 not found")
    u1, u2 = tab.var_units(m, t1[0]), tab.var_units(m, t2[0])
    want1 = [ord(c) for i in range(100) for c in "%02d" % i]
    r.ob("Qentem::DigitUtils::DigitTable1", "contents", u1 == want1, "table has %d characters; want the 200 characters 00..99" % (len(u1) if u1 else -1), tab.rel(t1[0]))
    r.ob("Qentem::DigitUtils::DigitTable2", "contents", u2 == [ord(c) for c in "0123456789"], "table %r" % (tab.ascii_text(u2) if u2 else None), tab.rel(t2[0]))
    rules.append(r)

    # ---------------- X3-index
    r = Rule("X3-index", "indices into the digit tables are proven in range; IntToString only sees unsigned numbers", floor=6)
    f = m.fn("Qentem::Digit::IntToString")
    ctx.note_fn(f)
    num = [p for p in f.params if p["n"] == "number"][0]
    for i in astq.nodes_of(f, "ArraySubscriptExpr"):
        n = f.nodes[i]
        base = f.nodes[f.strip(n["ch"][0])]
        tname = base.get("n") or (base.get("text") or "").split("::")[-1]
        if tname not in ("DigitTable1", "DigitTable2"):
            continue
        size = 200 if tname == "DigitTable1" else 10
        idx = n["ch"][1]
        try:
            # index expressed over the local `index` (defined as (number % 100) * 2) or over `number` itself
            idn = f.nodes[f.strip(idx)]
            loc = [x for x in f.walk(idx) if f.nodes[x]["k"] == "DeclRefExpr" and f.nodes[x]["n"] == "index"]
            if loc:
                d = f.nodes[loc[0]]["d"]
                # definition of index: SizeT(number % 100) * 2  -> range [0, 198] for an unsigned number
                defs = [dd for s in astq.nodes_of(f, "DeclStmt") for dd in f.nodes[s]["decls"] if dd.get("d") == d]
                rng = None

                def interval(nid):
                    """[lo, hi] of an unsigned expression over `number` in [0, 2^64)"""
                    nn = f.nodes[nid]
                    k_ = nn["k"]
                    if k_ in ("ParenExpr", "ImplicitCastExpr", "CXXFunctionalCastExpr", "CXXUnresolvedConstructExpr", "InitListExpr", "CStyleCastExpr", "CXXStaticCastExpr") and len(nn.get("ch", [])) == 1:
                        return interval(nn["ch"][0])
                    cv = m.eval_nodes(f.nodes, nid)
                    if cv is not None:
                        return (cv, cv)
                    if k_ == "DeclRefExpr" and nn.get("n") == "number":
                        return (0, (1 << 64) - 1)
                    if k_ == "BinaryOperator":
                        a_, b_ = interval(nn["ch"][0]), interval(nn["ch"][1])
                        if a_ is None or b_ is None:
                            return None
                        op_ = nn["op"]
                        if op_ == "%" and b_[0] == b_[1] and b_[0] > 0:
                            return (0, min(a_[1], b_[0] - 1))
                        if op_ == "*":
                            return (a_[0] * b_[0], a_[1] * b_[1])
                        if op_ == "<<" and b_[0] == b_[1]:
                            return (a_[0] << b_[0], a_[1] << b_[0])
                        if op_ == ">>" and b_[0] == b_[1]:
                            return (a_[0] >> b_[0], a_[1] >> b_[0])
                        if op_ == "+":
                            return (a_[0] + b_[0], a_[1] + b_[1])
                        if op_ == "/" and b_[0] == b_[1] and b_[0] > 0:
                            return (a_[0] // b_[0], a_[1] // b_[0])
                        if op_ == "&" and b_[0] == b_[1]:
                            return (0, min(a_[1], b_[0]))
                    return None
                for dd in defs:
                    rng = interval(dd["init"])
                if rng is None:
                    raise Unrecognised("definition of `index`")
                ps = pwl.pieces(f, idx, d, rng[0], rng[1])
                hi = max(p[2] * p[1] + p[3] for p in ps)
                lo = min(p[2] * p[0] + p[3] for p in ps)
                r.ob(f.q, f.text(i), 0 <= lo and hi < size, "index ranges over [%d,%d], table has %d digits" % (lo, hi, size), f.loc(i))
            else:
                # DigitTable2[number] after `while (number >= 10)`: number in [0,9] when unsigned
                wl = [w for w in astq.nodes_of(f, "WhileStmt") if ">= " in f.text(f.nodes[w]["cond"]) and "number" in f.text(f.nodes[w]["cond"])]
                bound = None
                for w in wl:
                    c = f.nodes[f.strip(f.nodes[w]["cond"])]
                    if i > w and w == max(x for x in wl if x < i):
                        bound = m.eval_nodes(f.nodes, f.strip_casts(c["ch"][1]))
                ok = f.text(idx) == "number" and bound is not None and bound <= size
                r.ob(f.q, f.text(i), ok, "reached after `while (number >= %s)`: number in [0,%s] for an unsigned number" % (bound, (bound or 0) - 1), f.loc(i))
        except Unrecognised as e:
            r.broke("index expression %s has an unrecognised shape: %s" % (f.text(i), e))
    # instantiations: the number parameter is unsigned
    mi = ctx.inst()
    insts = [g for g in mi.fns("Qentem::Digit::IntToString", pattern=False, required=False) if g.inst]
    for g in insts:
        p = [x for x in g.params if x["n"] == "number"][0]
        r.ob(g.qf, "Number_T = %s" % p["t"], p["tk"] == "uint", "IntToString<%s>: a signed argument would skip the digit loop for negative values" % p["t"],
             "Include/Digit.hpp:%d" % g.line)
    if len(insts) < 4:
        r.broke("expected at least 4 instantiations of IntToString in the driver unit, found %d" % len(insts))
    rules.append(r)

    # ---------------- TB-ieee
    r = Rule("TB-ieee", "IEEE-754 parameter tables are self-consistent", floor=3)
    ri = tab.members(m, "Qentem::DigitUtils::RealNumberInfo")
    for targs, mm in sorted(ri.items()):
        bits = int("".join(ch for ch in targs.split(",")[-1] if ch.isdigit())) * 8
        if bits == 8:
            continue  # dummy
        if "type-parameter" not in targs:
            continue  # lazily instantiated copy of a partial specialisation: the pattern is checked
        E, M = tab.var_int(m, mm["ExponentSize"]), tab.var_int(m, mm["MantissaSize"])
        sm, em, man, lb, bias = (tab.var_int(m, mm[k]) for k in ("SignMask", "ExponentMask", "MantissaMask", "LeadingBit", "Bias"))
        ok = 1 + E + M == bits and sm == 1 << (bits - 1) and man == (1 << M) - 1 and em == ((1 << E) - 1) << M and lb == 1 << M and bias == (1 << (E - 1)) - 1
        r.ob("RealNumberInfo" + targs, "parameters", ok,
             "bits=%d E=%d M=%d sign=%#x exp=%#x man=%#x lead=%#x bias=%d" % (bits, E, M, sm, em, man, lb, bias), tab.rel(mm["Bias"]))
    rules.append(r)

    # ---------------- TB-buffer
    r = Rule("TB-buffer", "the integer digit buffer covers every width", floor=1)
    nts = m.fn("Qentem::Digit::NumberToString")
    md = [d for s in astq.nodes_of(nts, "DeclStmt") for d in nts.nodes[s]["decls"] if d.get("n") == "max_number_of_digits"]
    ok = False
    why = "max_number_of_digits not found"
    if md:
        t = nts.text(md[0]["init"]).replace(" ", "")
        # (((n_size*8)*30103)/100000)+1
        import math
        worst = []
        for nbytes in (1, 2, 4, 8):
            have = (nbytes * 8 * 30103) // 100000 + 1
            need = len(str((1 << (nbytes * 8)) - 1))
            worst.append((nbytes, have, need))
        shape = "30103" in t and "100000" in t and t.endswith("+1)")
        ok = shape and all(h >= n for _, h, n in worst)
        why = "formula `%s`; (bytes, buffer, digits needed) = %s" % (nts.text(md[0]["init"]), worst)
    r.ob(nts.q, "max_number_of_digits", ok, why, "Include/Digit.hpp:%d" % nts.line)
    rules.append(r)

    # ---------------- TB-digitstring
    r = Rule("TB-digitstring", "inf/nan/zeros literals and their lengths; insertZeros chunking", floor=15)
    ds = tab.members(m, "Qentem::DigitUtils::DigitString")
    for targs, mm in sorted(ds.items()):
        for name, text, ln in (("Infinity", "inf", "InfinityLength"), ("NotANumber", "nan", "NotANumberLength"), ("Zeros", "0" * 19, "ZerosLength")):
            u = tab.var_units(m, mm[name]) if name in mm else None
            L = tab.var_int(m, mm[ln]) if ln in mm else None
            r.ob("DigitString" + targs, name, u == [ord(c) for c in text] and L == len(text), "literal %r, declared length %s" % (tab.ascii_text(u) if u else None, L), tab.rel(mm[name]) if name in mm else "")
    iz = m.fn("Qentem::Digit::insertZerosLarge")
    loops = astq.nodes_of(iz, "WhileStmt")
    ok = len(loops) == 1 and iz.text(iz.nodes[loops[0]]["cond"]).replace("(", "").replace(")", "") == "length > DigitString::ZerosLength"
    writes = astq.calls(iz, "Write")
    ok = ok and len(writes) == 2 and "ZerosLength" in iz.text(iz.call_args(writes[0])[1]) and iz.nodes[iz.strip_casts(iz.call_args(writes[1])[1])].get("n") == "length"
    r.ob(iz.q, "chunking", ok, "writes ZerosLength zeros while length > ZerosLength, then the remaining `length` (<= ZerosLength) zeros", "Include/Digit.hpp:%d" % iz.line)
    # insertZeros(stream, n) copies n units straight from the Zeros literal: every call site must pass n <= ZerosLength
    zl = m.resolve_dep_const("DigitString::ZerosLength")
    from qlib import dataflow
    from qlib.zone import Zone, ContractTable, Lin, ZERO
    from tables.contracts import CONTRACTS
    table = ContractTable(CONTRACTS)
    for g in m.functions:
        if g.inst or not g.file.endswith("Digit.hpp"):
            continue
        cs = astq.calls(g, "insertZeros")
        if not cs:
            continue
        ctx.note_fn(g)
        z = Zone(m, g, table)
        states = dataflow.run(g, z)

        def visit(b, i, e, st, g=g, z=z, cs=cs):
            if e is None or e.get("n") not in cs or st.bottom:
                return
            arg = g.call_args(e["n"])[1]
            la = z.lin(st, arg)
            if la is not None and zl is not None:
                ok = st.lin_le0(la - Lin({}, zl))
                r.ob(g.q, g.text(e["n"]), ok, "argument %s must be <= ZerosLength (%s)" % (g.text(arg), zl), g.loc(e["n"]))
                return
            # K - unsigned  with K <= ZerosLength
            an = g.nodes[g.strip_casts(arg)]
            if an["k"] == "BinaryOperator" and an["op"] == "-":
                K = m.eval_nodes(g.nodes, g.strip_casts(an["ch"][0]))
                if K is None:
                    # constant depends on the word size: take the largest specialisation
                    nm = g.nodes[g.strip_casts(an["ch"][0])].get("n")
                    vals = [tab.var_int(m, mm2[nm]) for mm2 in tab.members(m, "Qentem::DigitUtils::DigitConst").values() if nm in mm2]
                    K = max(vals) if vals else None
                r.ob(g.q, g.text(e["n"]), K is not None and zl is not None and K <= zl,
                     "argument is %s - (digits just written): at most %s <= ZerosLength %s, assuming the remainder of a division by "
                     "10^k prints at most k digits (no unsigned wrap)" % (K, K, zl), g.loc(e["n"]))
                return
            r.ob(g.q, g.text(e["n"]), False, "argument %s is not provably <= ZerosLength" % g.text(arg), g.loc(e["n"]))
        dataflow.replay(g, z, states, visit)
    rules.append(r)

    # ---------------- power tables (shared)
    from rules import C09
    for r9 in C09.run(ctx):
        if r9.rid in ("TB-powers",):
            rules.append(r9)
    # ---------------- borrowed storage pointers
    from rules.borrow import rule_borrow
    rules.append(rule_borrow(ctx, m, files=["Digit.hpp"], extra_fns=["Qentem::StringStream::InsertAt", "Qentem::String::InsertAt"]))
    from rules.common import rule_stream_past
    rules.append(rule_stream_past(ctx, m))
    rules.append(rule_point_bound(ctx, m))
    rules.append(rule_loss_sticky(ctx, m))
    rules.append(rule_round_lower(ctx, m))
    rules.append(rule_sticky_sources(ctx, m))
    rules.append(rule_sticky_keep(ctx, m))
    rules.append(rule_relative_length(ctx, m))
    # the digit generator multiplies and shifts a BigInt: a shift by the full word width is undefined there too
    from rules.C19 import rule_shift_width
    from qlib.zone import ContractTable, Contract
    _t = {f_.q + "/%d" % len(f_.params): Contract(buffers={"f:storage_": "g:this|MaxIndex()+1"}, invariants=[("f:index_", "g:this|MaxIndex()", 0)]) for f_ in m.functions if f_.cls == "Qentem::BigInt" and not f_.inst and f_.cfg}
    rules.append(rule_shift_width(ctx, m, ContractTable(_t)))
    rules.append(rule_dot_digit(ctx, m))
    rules.append(rule_precision_zero(ctx, m))
    return rules



def rule_point_bound(ctx, m):
    """PR-point: the formatters work on the reversed digit string with a cursor `index`; the position of the decimal point is
    fixed (started_at + fraction_length).  Trailing zeros of the FRACTION may be skipped, digits of the integer part may not:
    (a) every loop that advances the cursor over zero digits while the point position is in scope is bounded by that position
    (else 100.04 at one decimal loses the zeros of "100" and prints with a different magnitude);
    (b) where zeros are written back in front of the cursor after a carry (the loop `--index; storage[index] = '0'`), their count is
    computed from the point position or from the lengths of the string, not from the ESTIMATED digit count the caller passes in
    (the estimate is one short for 10.x, 100.x, 1000.x ...)."""
    r = Rule("PR-point", "zero digits are skipped only up to the decimal point, and restored zeros are counted from it", floor=4)
    for q in ("Qentem::Digit::formatStringNumberFixed", "Qentem::Digit::formatStringNumberDefault"):
        fs = [f for f in m.fns(q, required=False) if not f.inst and f.cfg]
        if not fs:
            r.broke("%s not found" % q)
            continue
        f = fs[0]
        ctx.note_fn(f)
        # the decimal-point position: a local initialised from a sum that mentions the fraction-length parameter
        frac = [p_ for p_ in f.params if "fraction" in p_["n"]]
        est = [p_ for p_ in f.params if "calculated" in p_["n"] or "digits" in p_["n"]]
        points = {}
        for x in astq.nodes_of(f, "DeclStmt"):
            for d in f.nodes[x]["decls"]:
                if "d" in d and d.get("init", -1) >= 0 and frac and any(f.nodes[y].get("d") == frac[0]["d"] for y in f.walk(d["init"])) and \
                        f.nodes[f.strip_casts(d["init"])]["k"] == "BinaryOperator" and f.nodes[f.strip_casts(d["init"])]["op"] == "+":
                    points[d["d"]] = (d["n"], x)
        if not points:
            r.broke("%s: the local holding the position of the decimal point was not found" % q)
            continue
        par = f.parents()

        def in_scope(decl_stmt, node):
            """the DeclStmt precedes the node inside one of the node's enclosing compound statements"""
            up = node
            while up is not None:
                p_ = par.get(up)
                if p_ is not None and f.nodes[p_]["k"] == "CompoundStmt":
                    ch = f.nodes[p_].get("ch", [])
                    if decl_stmt in ch and up in ch and ch.index(decl_stmt) < ch.index(up):
                        return True
                up = p_
            return False
        for w in astq.nodes_of(f, "WhileStmt"):
            cond = f.nodes[w].get("cond", -1)
            if cond is None or cond < 0:
                continue
            ct = f.text(cond)
            if not ("Zero" in ct and "==" in ct and "*" in ct):
                continue
            vis = [(nm, st) for (did, (nm, st)) in points.items() if in_scope(st, w)]
            if not vis:
                continue      # no point position yet (the exponent form drops the point altogether)
            uses = any(f.nodes[y].get("d") in points for y in f.walk(cond))
            r.ob(f.q, "while %s" % ct[:70], uses, "the skip of zero digits is bounded by `%s`" % vis[0][0] if uses else
                 "zero digits are skipped without regard to `%s`: zeros of the integer part are dropped with the trailing zeros of the fraction (100.04 at one decimal prints as 1000)" % vis[0][0], f.loc(w))
        # (b) zeros written back: the counter local that controls a loop storing Zero at --index
        for w in astq.nodes_of(f, "WhileStmt"):
            body_t = " ".join(f.text(y) for y in f.walk(f.nodes[w].get("body", w)) if f.nodes[y]["k"] in ("BinaryOperator", "UnaryOperator"))
            cond = f.nodes[w].get("cond", -1)
            if cond is None or cond < 0 or "Zero" not in body_t or "--" not in body_t:
                continue
            cn = [f.nodes[y] for y in f.walk(cond) if f.nodes[y]["k"] == "DeclRefExpr" and f.nodes[y].get("dk") == "var"]
            if len(cn) != 1:
                continue
            counter = cn[0]["d"]
            # all assignments to the counter: none may read the estimate parameter (directly or through a local)
            tainted = set(p_["d"] for p_ in est)
            changed = True
            while changed:
                changed = False
                for x in astq.nodes_of(f, "DeclStmt"):
                    for d in f.nodes[x]["decls"]:
                        if "d" in d and d["d"] not in tainted and d.get("init", -1) >= 0 and any(f.nodes[y].get("d") in tainted for y in f.walk(d["init"])):
                            tainted.add(d["d"])
                            changed = True
            bad = None
            for x in f.walk():
                n = f.nodes[x]
                if n["k"] == "BinaryOperator" and n["op"] == "=" and f.nodes[f.strip(n["ch"][0])].get("d") == counter:
                    if any(f.nodes[y].get("d") in tainted for y in f.walk(n["ch"][1])):
                        bad = x
            r.ob(f.q, "zeros restored in front of the cursor (%s)" % cn[0]["n"], bad is None,
                 "their count is computed from the point position and the lengths of the digit string" if bad is None else
                 "`%s` takes the count from the caller's ESTIMATE of the number of integer digits, which is one short just above a power of ten (119.95 at one decimal prints as 1200)" % f.text(bad)[:60],
                 f.loc(bad) if bad is not None else f.loc(w))
    return r



def rule_loss_sticky(ctx, m):
    """LOSS-sticky: realToString turns the binary value into a decimal digit string of limited length by shifting the big
    integer right and dividing it; whatever such an operation drops has to reach the rounding step through the flag it passes on
    (`round_up`: "the value is above what the digits show"), otherwise a dropped 0.007 turns 25.007 into an exact tie that is
    rounded to even.  Abstract paths through realToString (state: a lossy operation was executed; the flag was assigned; which
    shift-amount locals are still the literal zero they were initialised with): at every call of a formatter a path that executed a
    lossy operation has assigned the flag.  Lossless by construction and exempt: a shift by the trailing-zero count
    (the amount is the result of FindFirstBit) and a shift whose amount is still literally zero on that path."""
    from qlib import dataflow
    r = Rule("LOSS-sticky", "every path of realToString that shifts or divides digits away has assigned the round-up flag before it formats", floor=2)
    fs = [f for f in m.functions if not f.inst and f.cfg and f.q == "Qentem::Digit::realToString"]
    if not fs:
        r.broke("Digit::realToString not found")
        return r
    f = fs[0]
    ctx.note_fn(f)
    blocks = f.blocks()
    flag = [d for x in astq.nodes_of(f, "DeclStmt") for d in f.nodes[x]["decls"] if d.get("tk") == "bool" and d.get("n") == "round_up"]
    if not flag:
        flag = [d for x in astq.nodes_of(f, "DeclStmt") for d in f.nodes[x]["decls"] if d.get("tk") == "bool" and "round" in (d.get("n") or "")]
    if len(flag) != 1:
        r.broke("realToString: the round-up flag local was not identified")
        return r
    fd = flag[0]["d"]
    # trailing-zero count locals: initialised from FindFirstBit
    tz = set(d["d"] for x in astq.nodes_of(f, "DeclStmt") for d in f.nodes[x]["decls"] if "d" in d and d.get("init", -1) >= 0 and
             any(f.call_simple_name(c) == "FindFirstBit" for c in astq.calls(f, None, d["init"])))
    big = set(d["d"] for x in astq.nodes_of(f, "DeclStmt") for d in f.nodes[x]["decls"] if "d" in d and "BigInt" in (d.get("t") or ""))
    zero_init = set(d["d"] for x in astq.nodes_of(f, "DeclStmt") for d in f.nodes[x]["decls"] if "d" in d and d.get("init", -1) >= 0 and f.const_value(d["init"]) == 0
                    and d.get("tk") in ("uint", "sint"))

    def lossy(x, zeros):
        """description if the element drops digits/bits of the big integer"""
        n = f.nodes[x]
        if n["k"] in ("CompoundAssignOperator", "CXXOperatorCallExpr", "BinaryOperator") and n.get("op") in (">>=", "/="):
            lhs = n["ch"][0] if n["k"] != "CXXOperatorCallExpr" else f.call_args(x)[0]
            rhs = n["ch"][1] if n["k"] != "CXXOperatorCallExpr" else f.call_args(x)[1]
            if f.nodes[f.strip(lhs)].get("d") in big:
                rn = f.nodes[f.strip_casts(rhs)]
                if rn["k"] == "DeclRefExpr" and (rn.get("d") in tz or rn.get("d") in zeros):
                    return None
                return f.text(x)[:50]
        if n["k"] in ("CallExpr", "CXXMemberCallExpr") and (f.call_simple_name(x) or "") in ("bigIntDropDigits", "Divide") and any(f.nodes[y].get("d") in big for y in f.walk(x)):
            return f.text(x)[:50]
        return None
    sinks = [c for c in astq.calls(f) if (f.call_simple_name(c) or "").startswith("formatStringNumber")]
    if not sinks:
        r.broke("realToString: no call of a formatter found")
        return r
    sink_set = set(sinks)
    entry = f.cfg["entry"]
    seen = set()
    work = [(entry, None, False, frozenset())]
    bad = {}
    reached = set()
    steps = 0
    while work and steps < 200000:
        steps += 1
        bid, lost, sticky, zeros = work.pop()
        key = (bid, lost is not None, sticky, zeros)
        if key in seen:
            continue
        seen.add(key)
        zs = set(zeros)
        for e in blocks[bid]["el"]:
            x = e.get("n")
            if not isinstance(x, int) or e.get("k"):
                continue
            n = f.nodes[x]
            if n["k"] == "DeclStmt":
                for d in n["decls"]:
                    if d.get("d") in zero_init:
                        zs.add(d["d"])
            tgt = None
            if n["k"] == "UnaryOperator" and n["op"] in ("++", "--"):
                tgt = n["ch"][0]
            elif n["k"] == "CompoundAssignOperator" or (n["k"] == "BinaryOperator" and n["op"] == "="):
                tgt = n["ch"][0]
            if tgt is not None:
                td = f.nodes[f.strip(tgt)].get("d")
                if td in zs and not (n["k"] == "BinaryOperator" and f.const_value(n["ch"][1]) == 0):
                    zs.discard(td)
                if td == fd:
                    v = f.const_value(n["ch"][1]) if n["k"] == "BinaryOperator" else None
                    if v is None or v:
                        sticky = True
            lo = lossy(x, zs)
            if lo and lost is None:
                lost = (x, lo)
            if x in sink_set:
                reached.add(x)
                if lost is not None and not sticky and x not in bad:
                    bad[x] = lost
        for (s_, kind, payload) in dataflow.successors(f, blocks[bid]):
            if kind in ("true", "false") and payload is not None:
                c = f.nodes[f.strip(payload)]
                # shift >= K / shift != 0 with a literally-zero shift: only the false edge
                if c["k"] == "BinaryOperator" and c["op"] in (">=", ">", "!=") and f.nodes[f.strip_casts(c["ch"][0])].get("d") in zs and kind == "true":
                    continue
            work.append((s_, lost, sticky, frozenset(zs)))
    if steps >= 200000:
        r.broke("realToString: the abstract paths were not exhausted")
        return r
    # one obligation per lossy operation (the first one on a path is the one blamed)
    ops = {}
    for x in f.walk():
        lo = lossy(x, set())
        if lo:
            ops[x] = lo
    blamed = {}
    for c, (x, lo) in bad.items():
        blamed.setdefault(x, []).append(c)
    if not reached:
        r.broke("realToString: no formatter call is reachable in the CFG")
    for x, lo in sorted(ops.items()):
        r.ob(f.q, lo, x not in blamed, "every path from this operation to a formatter has assigned `round_up`" if x not in blamed else
             "a path from this operation reaches `%s` with `round_up` never assigned: what was dropped cannot influence the rounding (25.007 at %%.1g is rounded as the exact tie 25 and prints 2e+01)" % f.text(sorted(blamed[x], key=lambda c_: ("Default" not in f.text(c_), c_))[0])[:40],
             f.loc(x))
    return r


def rule_round_lower(ctx, m):
    """ROUND-lower: the formatters cut the digit string at a rounding position and throw the digits below it away (StepBack).
    The helper that decides the rounding looks only at the digit at that position, at its neighbour's parity and at the flag it is
    given; the flag therefore has to cover the digits below the position too.  At every call of roundStringNumber the flag argument is
    a value whose definitions include a loop that reads the digit string (compares storage units with the zero digit) -- or the
    position is provably the first digit."""
    r = Rule("ROUND-lower", "the flag handed to the rounding helper covers the digits below the rounding position", floor=2)
    for q in ("Qentem::Digit::formatStringNumberFixed", "Qentem::Digit::formatStringNumberDefault"):
        fs = [f for f in m.fns(q, required=False) if not f.inst and f.cfg]
        if not fs:
            r.broke("%s not found" % q)
            continue
        f = fs[0]
        for c in astq.calls(f, "roundStringNumber"):
            args = f.call_args(c)
            if len(args) < 4:
                continue
            ctx.note_fn(f)
            flag = args[3]
            # locals in the flag expression and their definitions
            covered = False
            decls = set(f.nodes[y].get("d") for y in f.walk(flag) if f.nodes[y]["k"] == "DeclRefExpr" and f.nodes[y].get("dk") == "var")
            for w in astq.nodes_of(f, ("ForStmt", "WhileStmt", "DoStmt")):
                if w > c:
                    continue
                body = f.nodes[w].get("body", w)
                for y in f.walk(body):
                    yn = f.nodes[y]
                    if yn["k"] == "BinaryOperator" and yn["op"] in ("=", "|=") and f.nodes[f.strip(yn["ch"][0])].get("d") in decls:
                        rt = f.text(yn["ch"][1])
                        if "[" in rt and "Zero" in rt:
                            covered = True
                    if yn["k"] == "CompoundAssignOperator" and yn["op"] == "|=" and f.nodes[f.strip(yn["ch"][0])].get("d") in decls and "Zero" in f.text(yn["ch"][1]):
                        covered = True
            r.ob(f.q, f.text(c)[:70], covered, "the flag includes a scan of the digits below the rounding position" if covered else
                 "the flag `%s` says nothing about the digits of the string below the rounding position: when the string is longer than precision + 1 digits (the digit-count estimate is one short just above a power of ten) a value above a tie is rounded as an exact tie (116656 at %%.4g gives 1.166e+05)" % f.text(flag)[:40], f.loc(c))
    return r



def rule_sticky_sources(ctx, m):
    """STICKY-src: the flag handed to roundStringNumber answers one question -- is the value ABOVE what the kept digits and the
    digit at the rounding position show -- and an exact tie is rounded to even only when it is false.  Everything that feeds the
    flag therefore has to be a statement about dropped precision: the flag the caller was given (bits and digits lost before the
    digit string was built) or a test of a digit below the position against the zero digit.  Rule: decompose the flag argument and
    every definition of the locals it mentions into disjuncts; each disjunct is a bool parameter, one of those locals, the literal
    false, or a comparison of a unit of the digit string with DigitChar::Zero.  A disjunct about a COUNT (how many zeros lead the
    fraction) makes every tie behind leading zeros round up (0.0625 at three decimals printed 0.063)."""
    r = Rule("STICKY-src", "every term of the flag handed to the rounding helper is the incoming flag or a non-zero test of a dropped digit", floor=2)
    for q in ("Qentem::Digit::formatStringNumberFixed", "Qentem::Digit::formatStringNumberDefault"):
        fs = [f for f in m.fns(q, required=False) if not f.inst and f.cfg]
        if not fs:
            r.broke("%s not found" % q)
            continue
        f = fs[0]
        bool_params = set(p_["n"] for p_ in f.params if p_.get("tk") == "bool")
        for c in astq.calls(f, "roundStringNumber"):
            args = f.call_args(c)
            if len(args) < 4:
                continue
            ctx.note_fn(f)
            flag = args[3]
            locs = {}
            for y in f.walk(flag):
                yn = f.nodes[y]
                if yn["k"] == "DeclRefExpr" and yn.get("dk") == "var" and yn.get("tk") == "bool":
                    locs[yn["d"]] = yn["n"]
            sources = [(flag, "the argument")]
            for st_ in astq.nodes_of(f, "DeclStmt"):
                for d in f.nodes[st_]["decls"]:
                    if d.get("d") in locs and d.get("init", -1) >= 0:
                        sources.append((d["init"], "initialiser of " + d["n"]))
            for y in f.walk():
                yn = f.nodes[y]
                if yn["k"] in ("BinaryOperator", "CompoundAssignOperator") and yn.get("op") in ("=", "|=") and f.nodes[f.strip(yn["ch"][0])].get("d") in locs:
                    sources.append((yn["ch"][1], "assignment to " + locs[f.nodes[f.strip(yn["ch"][0])]["d"]]))

            def disjuncts(x, out):
                x = f.strip_casts(x)
                n_ = f.nodes[x]
                while n_["k"] == "ParenExpr":
                    x = f.strip_casts(n_["ch"][0])
                    n_ = f.nodes[x]
                if n_["k"] == "BinaryOperator" and n_["op"] in ("|", "||"):
                    disjuncts(n_["ch"][0], out)
                    disjuncts(n_["ch"][1], out)
                else:
                    out.append(x)
            bad = None
            for src, where in sources:
                ds = []
                disjuncts(src, ds)
                for x in ds:
                    n_ = f.nodes[x]
                    if n_["k"] == "DeclRefExpr" and (n_.get("n") in bool_params or n_.get("d") in locs):
                        continue
                    if f.const_value(x) == 0:
                        continue
                    if n_["k"] == "BinaryOperator" and n_["op"] in ("!=", ">") and "Zero" in f.text(x) and \
                            any(f.nodes[z]["k"] in ("ArraySubscriptExpr",) or (f.nodes[z]["k"] == "UnaryOperator" and f.nodes[z].get("op") == "*") for z in f.walk(x)):
                        continue
                    bad = (x, where)
                    break
                if bad:
                    break
            r.ob(f.q, f.text(c)[:70], bad is None, "every term of the flag is the incoming flag or a digit test" if bad is None else
                 "`%s` (%s) is not a statement about dropped digits: with it set an exact tie is rounded up instead of to even (0.0625 at three decimals gives 0.063)"
                 % (f.text(bad[0])[:40], bad[1]), f.loc(bad[0]) if bad else f.loc(c))
    return r


def rule_sticky_keep(ctx, m):
    """STICKY-keep: a bool local that collects "something non-zero was dropped" over several steps (it is assigned with |=, or
    from an expression that contains itself) is sticky: once true it stays true.  After its first accumulating assignment every
    further assignment to it, on any path, has to contain it again (x |= e, x = e || x); a plain x = e there forgets what the
    earlier steps dropped (the remainder of the 5^27 divisions is lost when the last, smaller division is exact: 2.5e+29 at one
    digit prints 2e+29).  Flow-sensitive on the CFG: must the flag have been accumulated into before the plain assignment?
    May-analysis suffices: a plain assignment reachable from an accumulating one is a finding."""
    from qlib import dataflow
    r = Rule("STICKY-keep", "a flag that accumulates dropped remainders is never plainly overwritten after it accumulated", floor=1)
    for f in m.functions:
        if f.inst or not f.cfg or not f.file.endswith("/Digit.hpp"):
            continue
        bools = {}
        for st_ in astq.nodes_of(f, "DeclStmt"):
            for d in f.nodes[st_]["decls"]:
                if d.get("tk") == "bool" and "d" in d:
                    bools[d["d"]] = d["n"]
        if not bools:
            continue
        acc, plain = {}, {}
        for y in f.walk():
            yn = f.nodes[y]
            if yn["k"] in ("BinaryOperator", "CompoundAssignOperator") and yn.get("op") in ("=", "|="):
                ld = f.nodes[f.strip(yn["ch"][0])].get("d")
                if ld not in bools:
                    continue
                selfref = any(f.nodes[z]["k"] == "DeclRefExpr" and f.nodes[z].get("d") == ld for z in f.walk(yn["ch"][1]))
                if yn["op"] == "|=" or selfref:
                    acc.setdefault(ld, []).append(y)
                elif f.const_value(yn["ch"][1]) is None:
                    plain.setdefault(ld, []).append(y)
        for ld in acc:
            ctx.note_fn(f)
            bad = None
            blocks = f.blocks()
            for a in acc[ld]:
                ab = dataflow.block_of(f, a)
                if ab is None:
                    continue
                # blocks reachable from a (strictly after it)
                seen, work = set(), [s_ for s_, _, _ in dataflow.successors(f, blocks[ab])]
                while work:
                    b_ = work.pop()
                    if b_ in seen:
                        continue
                    seen.add(b_)
                    work.extend(s_ for s_, _, _ in dataflow.successors(f, blocks[b_]))
                for p_ in plain.get(ld, []):
                    pb = dataflow.block_of(f, p_)
                    els = [e.get("n") for e in blocks[ab]["el"]]
                    if pb in seen or (pb == ab and p_ in els and a in els and els.index(p_) > els.index(a)):
                        bad = (p_, a)
                        break
                if bad:
                    break
            r.ob(f.q, "flag %s" % bools[ld], bad is None, "every assignment after `%s` keeps the flag" % f.text(acc[ld][0])[:50] if bad is None else
                 "`%s` overwrites the flag after `%s` accumulated into it: what the earlier steps dropped is forgotten (the value is then rounded as an exact tie)"
                 % (f.text(bad[0])[:60], f.text(bad[1])[:50]), f.loc(bad[0]) if bad else f.loc(acc[ld][0]))
    return r


def rule_relative_length(ctx, m):
    """REL-length: the formatters append to a stream that may already hold text; the number they are writing starts at
    `started_at`.  Every question about HOW MANY units the number has is therefore about Length() - started_at.  Rule: in the
    functions of Digit.hpp that take started_at, stream.Length() (or a local initialised from it alone) is never compared with an
    integer literal other than through a difference with started_at: `Length() == 1` is true for "7" in an empty stream and false
    for "price: 7" (-0.0000001 at six decimals printed -00000000)."""
    r = Rule("REL-length", "lengths of the number being formatted are taken relative to started_at", floor=1)
    for f in m.functions:
        if f.inst or not f.cfg or not f.file.endswith("/Digit.hpp") or not any(p_["n"] == "started_at" for p_ in f.params):
            continue
        ctx.note_fn(f)
        absolute = set()
        for st_ in astq.nodes_of(f, "DeclStmt"):
            for d in f.nodes[st_]["decls"]:
                if d.get("init", -1) >= 0 and re.sub(r"\s+", "", f.text(f.strip_casts(d["init"]))) in ("stream.Length()", "(stream.Length())"):
                    absolute.add(d["d"])

        def is_abs(x):
            x = f.strip_casts(x)
            n_ = f.nodes[x]
            while n_["k"] == "ParenExpr":
                x = f.strip_casts(n_["ch"][0])
                n_ = f.nodes[x]
            if n_["k"] == "DeclRefExpr" and n_.get("d") in absolute:
                return True
            return n_["k"] in ("CallExpr", "CXXMemberCallExpr") and f.call_simple_name(x) == "Length" and "stream" in f.text(x)
        sites = 0
        for y in f.walk():
            yn = f.nodes[y]
            if yn["k"] == "BinaryOperator" and yn["op"] in ("==", "!=", "<", "<=", ">", ">="):
                for a_, b_ in ((yn["ch"][0], yn["ch"][1]), (yn["ch"][1], yn["ch"][0])):
                    if is_abs(a_) and f.const_value(f.strip_casts(b_)) is not None:
                        sites += 1
                        r.ob(f.q, f.text(y)[:60], False, "the absolute length of the stream is compared with %s: text already in the stream (or a sign) changes the answer -- the length of the number is Length() - started_at" % f.text(b_), f.loc(y))
        r.ob(f.q, "comparisons of Length() with a literal", sites == 0, "none compares the absolute stream length with a literal", "Include/Digit.hpp:%d" % f.line)
    return r


def rule_dot_digit(ctx, m):
    """DOT-digit: a decimal point is written only when at least one fraction digit follows it.  Every append of the point in the
    formatters is followed (same block) by an unconditional append of a digit, or by a run of `precision` zeros that is reached
    only where precision != 0 was established (must-analysis on the CFG: true edge of precision != 0, false edge of
    precision == 0, also through format.Precision).  Inserting the point INTO the digits (InsertAt) always has digits behind it."""
    from qlib import dataflow
    r = Rule("DOT-digit", "a decimal point is appended only where a fraction digit follows", floor=4)
    for q in ("Qentem::Digit::formatStringNumberFixed", "Qentem::Digit::formatStringNumberDefault", "Qentem::Digit::realToString"):
        fs = [f for f in m.fns(q, required=False) if not f.inst and f.cfg]
        if not fs:
            r.broke("%s not found" % q)
            continue
        f = fs[0]
        blocks = f.blocks()

        def prec_test(c):
            """True if the condition says precision != 0 when true, False if it says so when false, None otherwise"""
            c = f.strip(c)
            n = f.nodes[c]
            if n["k"] == "UnaryOperator" and n["op"] == "!":
                v = prec_test(n["ch"][0])
                return None if v is None else (not v)
            if n["k"] == "BinaryOperator" and n["op"] in ("!=", "==", ">"):
                a, b = n["ch"]
                ta, tb = f.text(a), f.text(b)
                if ("recision" in ta and f.const_value(f.strip_casts(b)) == 0) or ("recision" in tb and f.const_value(f.strip_casts(a)) == 0 and n["op"] != ">"):
                    return n["op"] in ("!=", ">")
            return None
        fact = {f.cfg["entry"]: False}
        work = [f.cfg["entry"]]
        at = {}
        it = 0
        while work and it < 8000:
            it += 1
            bid = work.pop()
            st = fact[bid]
            for e in blocks[bid]["el"]:
                x = e.get("n")
                if isinstance(x, int) and not e.get("k"):
                    at[x] = st if x not in at else (at[x] and st)
            for (s_, kind, payload) in dataflow.successors(f, blocks[bid]):
                out = st
                if kind in ("true", "false") and payload is not None:
                    t = prec_test(payload)
                    if t is not None and (kind == "true") == t:
                        out = True
                new_ = out if s_ not in fact else (fact[s_] and out)
                if s_ not in fact or new_ != fact[s_]:
                    fact[s_] = new_
                    work.append(s_)
        for b in f.cfg["blocks"]:
            els = [e["n"] for e in b["el"] if isinstance(e.get("n"), int) and not e.get("k")]
            for i, x in enumerate(els):
                n = f.nodes[x]
                is_dot = n["k"] in ("CompoundAssignOperator", "CXXOperatorCallExpr", "BinaryOperator") and n.get("op") == "+=" and f.text(x).replace(" ", "").endswith("+=Dot)")
                if not is_dot:
                    continue
                ctx.note_fn(f)
                # what follows in the same block
                follow = None
                for y in els[i + 1:]:
                    yn = f.nodes[y]
                    if yn["k"] in ("CompoundAssignOperator", "CXXOperatorCallExpr", "BinaryOperator") and yn.get("op") == "+=" and ("Zero" in f.text(y) or "One" in f.text(y)):
                        follow = ("digit", y)
                        break
                    if yn["k"] in ("CallExpr", "CXXMemberCallExpr") and (f.call_simple_name(y) or "").startswith("insertZeros"):
                        follow = ("zeros", y)
                        break
                if follow is None:
                    ok, why = False, "nothing is appended after the point in this block"
                elif follow[0] == "digit":
                    ok, why = True, "a digit is appended unconditionally right after the point"
                else:
                    cnt = f.text(f.call_args(follow[1])[-1])
                    ok = bool(at.get(x)) or "recision" not in cnt
                    why = ("the run of `%s` zeros after the point is reached only where the precision is known not to be zero" % cnt) if ok else \
                        "the point is followed by a run of `%s` zeros and nothing on the way here excludes precision 0: the text then ends in a bare point (1.5 at precision 0 prints `2.`)" % cnt
                r.ob(f.q, f.text(x)[:40], ok, why, f.loc(x))
    return r


def rule_precision_zero(ctx, m):
    """P0-map: C's %g takes a precision of zero as one; formatStringNumberDefault cannot work with zero (it keeps `precision`
    digits and rounds at the one after them).  The dispatcher that hands a real number to realToString therefore maps
    (Default, precision 0) to precision 1: in NumberToString a test of the format's precision against zero exists and on its
    zero edge realToString is called with a format whose precision is a non-zero literal."""
    r = Rule("P0-map", "the Default real format is never entered with precision 0 (mapped to 1 like %g)", floor=1)
    fs = [f for f in m.functions if not f.inst and f.cfg and f.q == "Qentem::Digit::NumberToString" and any("RealFormatInfo" in p_["t"] for p_ in f.params)]
    if not fs:
        r.broke("Digit::NumberToString(stream, number, format) not found")
        return r
    for f in fs:
        calls = astq.calls(f, "realToString")
        if not calls:
            continue
        ctx.note_fn(f)
        mapped = False
        for i in astq.nodes_of(f, "IfStmt"):
            ct = f.text(f.nodes[i]["cond"])
            if "Precision" in ct and "== 0" in ct.replace("0U", "0"):
                for c in astq.calls(f, "realToString", f.nodes[i]["then"]):
                    args = f.call_args(c)
                    last = f.text(args[-1]) if args else ""
                    lits = [f.const_value(y) for y in f.walk(args[-1]) if f.const_value(y) is not None] if args else []
                    if any(v and v > 0 for v in lits) and "format.Precision" not in last.replace("format.Precision ==", ""):
                        mapped = True
        r.ob(f.sig, "realToString(..., format)", mapped, "precision 0 in Default format is replaced by 1 before the number is formatted" if mapped else
             "the format is handed on as it is: with precision 0 the Default formatter keeps no digit (2.5 prints as an empty string, 10.4 as `e+01`)", f.loc(calls[0]))
    return r


def run(ctx):
    rules_ = list(_run_own(ctx) or [])
    from rules.common import shared
    have = set(r_.rid for r_ in rules_)
    rules_ += [r_ for r_ in shared(ctx, 'C14', ['SB-bytes']) if r_.rid not in have]
    return rules_
