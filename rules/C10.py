"""C10 -- number to text (thin: digit tables, IEEE parameter tables, buffer sizes, index bounds)."""
from qlib import astq, tab, pwl
from qlib.bitsym import Unrecognised
from qlib.model import AnalysisBroken
from qlib.report import Rule

META = {
    "explanation": "Thin structural check. (TB-digits) DigitTable1 is \"00\"..\"99\" and DigitTable2 \"0\"..\"9\"; "
                   "(X3-index) every index into them in IntToString is proven inside the table by interval "
                   "evaluation ((n % 100) * 2 + 1 <= 199; n < 10 after the loop) and every instantiation of IntToString "
                   "receives an UNSIGNED number (a negative value would skip the digit loop and index the table below "
                   "zero); (TB-ieee) for each RealNumberInfo variant 1 + E + M == bits, masks contiguous/disjoint, "
                   "LeadingBit == 1 << M, Bias == 2^(E-1) - 1; (TB-buffer) the integer buffer formula covers the decimal "
                   "digits of every width; (TB-digitstring) inf/nan/zeros literals and lengths in the five character "
                   "specialisations, insertZeros chunking; power tables (shared with C09); (BORROW) no storage pointer "
                   "obtained from the stream is used after a call that may reallocate it, in Digit.hpp and "
                   "StringStream::InsertAt. Not decided: digit correctness and rounding against printf.",
    "not_decided": "digit-exact equality with printf for all values, precisions and formats",
    "assumptions": [],
}
META["explanation"] += " " + "(ZB-past, shared with C01/C17) no raw access to the stream's buffer in the formatter is provably at or beyond Length(), or in front of started_at, on some path."
META["explanation"] += " " + "(PR-point) in formatStringNumberFixed / formatStringNumberDefault every loop that skips zero digits while the decimal-point position is in scope is bounded by that position, and the count of zeros written back after a carry is not taken from the caller's estimated digit count."


def run(ctx):
    m = ctx.pattern()
    rules = []

    r = Rule("TB-digits", "digit pair table and digit table spell 00..99 and 0..9", floor=2)
    t1 = [v for v in m.vars if v["q"] == "Qentem::DigitUtils::DigitTable1"]
    t2 = [v for v in m.vars if v["q"] == "Qentem::DigitUtils::DigitTable2"]
    if not t1 or not t2:
        raise AnalysisBroken("DigitTable1/DigitTable2 not found")
    u1, u2 = tab.var_units(m, t1[0]), tab.var_units(m, t2[0])
    want1 = [ord(c) for i in range(100) for c in "%02d" % i]
    r.ob("Qentem::DigitUtils::DigitTable1", "contents", u1 == want1, "table has %d characters; want the 200 characters 00..99" % (len(u1) if u1 else -1), tab.rel(t1[0]))
    r.ob("Qentem::DigitUtils::DigitTable2", "contents", u2 == [ord(c) for c in "0123456789"], "table %r" % (tab.ascii_text(u2) if u2 else None), tab.rel(t2[0]))
    rules.append(r)

    # ---------------- X3-index
    r = Rule("X3-index", "indices into the digit tables are proven in range; IntToString only sees unsigned numbers", floor=6)
    f = m.fn("Qentem::Digit::IntToString")
    ctx.note_fn(f)
    num = [p for p in f.params if p["n"] == "number"][0]
    for i in astq.nodes_of(f, "ArraySubscriptExpr"):
        n = f.nodes[i]
        base = f.nodes[f.strip(n["ch"][0])]
        tname = base.get("n") or (base.get("text") or "").split("::")[-1]
        if tname not in ("DigitTable1", "DigitTable2"):
            continue
        size = 200 if tname == "DigitTable1" else 10
        idx = n["ch"][1]
        try:
            # index expressed over the local `index` (defined as (number % 100) * 2) or over `number` itself
            idn = f.nodes[f.strip(idx)]
            loc = [x for x in f.walk(idx) if f.nodes[x]["k"] == "DeclRefExpr" and f.nodes[x]["n"] == "index"]
            if loc:
                d = f.nodes[loc[0]]["d"]
                # definition of index: SizeT(number % 100) * 2  -> range [0, 198] for an unsigned number
                defs = [dd for s in astq.nodes_of(f, "DeclStmt") for dd in f.nodes[s]["decls"] if dd.get("d") == d]
                rng = None

                def interval(nid):
                    """[lo, hi] of an unsigned expression over `number` in [0, 2^64)"""
                    nn = f.nodes[nid]
                    k_ = nn["k"]
                    if k_ in ("ParenExpr", "ImplicitCastExpr", "CXXFunctionalCastExpr", "CXXUnresolvedConstructExpr", "InitListExpr", "CStyleCastExpr", "CXXStaticCastExpr") and len(nn.get("ch", [])) == 1:
                        return interval(nn["ch"][0])
                    cv = m.eval_nodes(f.nodes, nid)
                    if cv is not None:
                        return (cv, cv)
                    if k_ == "DeclRefExpr" and nn.get("n") == "number":
                        return (0, (1 << 64) - 1)
                    if k_ == "BinaryOperator":
                        a_, b_ = interval(nn["ch"][0]), interval(nn["ch"][1])
                        if a_ is None or b_ is None:
                            return None
                        op_ = nn["op"]
                        if op_ == "%" and b_[0] == b_[1] and b_[0] > 0:
                            return (0, min(a_[1], b_[0] - 1))
                        if op_ == "*":
                            return (a_[0] * b_[0], a_[1] * b_[1])
                        if op_ == "<<" and b_[0] == b_[1]:
                            return (a_[0] << b_[0], a_[1] << b_[0])
                        if op_ == ">>" and b_[0] == b_[1]:
                            return (a_[0] >> b_[0], a_[1] >> b_[0])
                        if op_ == "+":
                            return (a_[0] + b_[0], a_[1] + b_[1])
                        if op_ == "/" and b_[0] == b_[1] and b_[0] > 0:
                            return (a_[0] // b_[0], a_[1] // b_[0])
                        if op_ == "&" and b_[0] == b_[1]:
                            return (0, min(a_[1], b_[0]))
                    return None
                for dd in defs:
                    rng = interval(dd["init"])
                if rng is None:
                    raise Unrecognised("definition of `index`")
                ps = pwl.pieces(f, idx, d, rng[0], rng[1])
                hi = max(p[2] * p[1] + p[3] for p in ps)
                lo = min(p[2] * p[0] + p[3] for p in ps)
                r.ob(f.q, f.text(i), 0 <= lo and hi < size, "index ranges over [%d,%d], table has %d digits" % (lo, hi, size), f.loc(i))
            else:
                # DigitTable2[number] after `while (number >= 10)`: number in [0,9] when unsigned
                wl = [w for w in astq.nodes_of(f, "WhileStmt") if ">= " in f.text(f.nodes[w]["cond"]) and "number" in f.text(f.nodes[w]["cond"])]
                bound = None
                for w in wl:
                    c = f.nodes[f.strip(f.nodes[w]["cond"])]
                    if i > w and w == max(x for x in wl if x < i):
                        bound = m.eval_nodes(f.nodes, f.strip_casts(c["ch"][1]))
                ok = f.text(idx) == "number" and bound is not None and bound <= size
                r.ob(f.q, f.text(i), ok, "reached after `while (number >= %s)`: number in [0,%s] for an unsigned number" % (bound, (bound or 0) - 1), f.loc(i))
        except Unrecognised as e:
            r.broke("index expression %s has an unrecognised shape: %s" % (f.text(i), e))
    # instantiations: the number parameter is unsigned
    mi = ctx.inst()
    insts = [g for g in mi.fns("Qentem::Digit::IntToString", pattern=False, required=False) if g.inst]
    for g in insts:
        p = [x for x in g.params if x["n"] == "number"][0]
        r.ob(g.qf, "Number_T = %s" % p["t"], p["tk"] == "uint", "IntToString<%s>: a signed argument would skip the digit loop for negative values" % p["t"],
             "Include/Digit.hpp:%d" % g.line)
    if len(insts) < 4:
        r.broke("expected at least 4 instantiations of IntToString in the driver unit, found %d" % len(insts))
    rules.append(r)

    # ---------------- TB-ieee
    r = Rule("TB-ieee", "IEEE-754 parameter tables are self-consistent", floor=3)
    ri = tab.members(m, "Qentem::DigitUtils::RealNumberInfo")
    for targs, mm in sorted(ri.items()):
        bits = int("".join(ch for ch in targs.split(",")[-1] if ch.isdigit())) * 8
        if bits == 8:
            continue  # dummy
        if "type-parameter" not in targs:
            continue  # lazily instantiated copy of a partial specialisation: the pattern is checked
        E, M = tab.var_int(m, mm["ExponentSize"]), tab.var_int(m, mm["MantissaSize"])
        sm, em, man, lb, bias = (tab.var_int(m, mm[k]) for k in ("SignMask", "ExponentMask", "MantissaMask", "LeadingBit", "Bias"))
        ok = 1 + E + M == bits and sm == 1 << (bits - 1) and man == (1 << M) - 1 and em == ((1 << E) - 1) << M and lb == 1 << M and bias == (1 << (E - 1)) - 1
        r.ob("RealNumberInfo" + targs, "parameters", ok,
             "bits=%d E=%d M=%d sign=%#x exp=%#x man=%#x lead=%#x bias=%d" % (bits, E, M, sm, em, man, lb, bias), tab.rel(mm["Bias"]))
    rules.append(r)

    # ---------------- TB-buffer
    r = Rule("TB-buffer", "the integer digit buffer covers every width", floor=1)
    nts = m.fn("Qentem::Digit::NumberToString")
    md = [d for s in astq.nodes_of(nts, "DeclStmt") for d in nts.nodes[s]["decls"] if d.get("n") == "max_number_of_digits"]
    ok = False
    why = "max_number_of_digits not found"
    if md:
        t = nts.text(md[0]["init"]).replace(" ", "")
        # (((n_size*8)*30103)/100000)+1
        import math
        worst = []
        for nbytes in (1, 2, 4, 8):
            have = (nbytes * 8 * 30103) // 100000 + 1
            need = len(str((1 << (nbytes * 8)) - 1))
            worst.append((nbytes, have, need))
        shape = "30103" in t and "100000" in t and t.endswith("+1)")
        ok = shape and all(h >= n for _, h, n in worst)
        why = "formula `%s`; (bytes, buffer, digits needed) = %s" % (nts.text(md[0]["init"]), worst)
    r.ob(nts.q, "max_number_of_digits", ok, why, "Include/Digit.hpp:%d" % nts.line)
    rules.append(r)

    # ---------------- TB-digitstring
    r = Rule("TB-digitstring", "inf/nan/zeros literals and their lengths; insertZeros chunking", floor=15)
    ds = tab.members(m, "Qentem::DigitUtils::DigitString")
    for targs, mm in sorted(ds.items()):
        for name, text, ln in (("Infinity", "inf", "InfinityLength"), ("NotANumber", "nan", "NotANumberLength"), ("Zeros", "0" * 19, "ZerosLength")):
            u = tab.var_units(m, mm[name]) if name in mm else None
            L = tab.var_int(m, mm[ln]) if ln in mm else None
            r.ob("DigitString" + targs, name, u == [ord(c) for c in text] and L == len(text), "literal %r, declared length %s" % (tab.ascii_text(u) if u else None, L), tab.rel(mm[name]) if name in mm else "")
    iz = m.fn("Qentem::Digit::insertZerosLarge")
    loops = astq.nodes_of(iz, "WhileStmt")
    ok = len(loops) == 1 and iz.text(iz.nodes[loops[0]]["cond"]).replace("(", "").replace(")", "") == "length > DigitString::ZerosLength"
    writes = astq.calls(iz, "Write")
    ok = ok and len(writes) == 2 and "ZerosLength" in iz.text(iz.call_args(writes[0])[1]) and iz.nodes[iz.strip_casts(iz.call_args(writes[1])[1])].get("n") == "length"
    r.ob(iz.q, "chunking", ok, "writes ZerosLength zeros while length > ZerosLength, then the remaining `length` (<= ZerosLength) zeros", "Include/Digit.hpp:%d" % iz.line)
    # insertZeros(stream, n) copies n units straight from the Zeros literal: every call site must pass n <= ZerosLength
    zl = m.resolve_dep_const("DigitString::ZerosLength")
    from qlib import dataflow
    from qlib.zone import Zone, ContractTable, Lin, ZERO
    from tables.contracts import CONTRACTS
    table = ContractTable(CONTRACTS)
    for g in m.functions:
        if g.inst or not g.file.endswith("Digit.hpp"):
            continue
        cs = astq.calls(g, "insertZeros")
        if not cs:
            continue
        ctx.note_fn(g)
        z = Zone(m, g, table)
        states = dataflow.run(g, z)

        def visit(b, i, e, st, g=g, z=z, cs=cs):
            if e is None or e.get("n") not in cs or st.bottom:
                return
            arg = g.call_args(e["n"])[1]
            la = z.lin(st, arg)
            if la is not None and zl is not None:
                ok = st.lin_le0(la - Lin({}, zl))
                r.ob(g.q, g.text(e["n"]), ok, "argument %s must be <= ZerosLength (%s)" % (g.text(arg), zl), g.loc(e["n"]))
                return
            # K - unsigned  with K <= ZerosLength
            an = g.nodes[g.strip_casts(arg)]
            if an["k"] == "BinaryOperator" and an["op"] == "-":
                K = m.eval_nodes(g.nodes, g.strip_casts(an["ch"][0]))
                if K is None:
                    # constant depends on the word size: take the largest specialisation
                    nm = g.nodes[g.strip_casts(an["ch"][0])].get("n")
                    vals = [tab.var_int(m, mm2[nm]) for mm2 in tab.members(m, "Qentem::DigitUtils::DigitConst").values() if nm in mm2]
                    K = max(vals) if vals else None
                r.ob(g.q, g.text(e["n"]), K is not None and zl is not None and K <= zl,
                     "argument is %s - (digits just written): at most %s <= ZerosLength %s, assuming the remainder of a division by "
                     "10^k prints at most k digits (no unsigned wrap)" % (K, K, zl), g.loc(e["n"]))
                return
            r.ob(g.q, g.text(e["n"]), False, "argument %s is not provably <= ZerosLength" % g.text(arg), g.loc(e["n"]))
        dataflow.replay(g, z, states, visit)
    rules.append(r)

    # ---------------- power tables (shared)
    from rules import C09
    for r9 in C09.run(ctx):
        if r9.rid in ("TB-powers",):
            rules.append(r9)
    # ---------------- borrowed storage pointers
    from rules.borrow import rule_borrow
    rules.append(rule_borrow(ctx, m, files=["Digit.hpp"], extra_fns=["Qentem::StringStream::InsertAt", "Qentem::String::InsertAt"]))
    from rules.common import rule_stream_past
    rules.append(rule_stream_past(ctx, m))
    rules.append(rule_point_bound(ctx, m))
    return rules



def rule_point_bound(ctx, m):
    """PR-point: the formatters work on the reversed digit string with a cursor `index`; the position of the decimal point is
    fixed (started_at + fraction_length).  Trailing zeros of the FRACTION may be skipped, digits of the integer part may not:
    (a) every loop that advances the cursor over zero digits while the point position is in scope is bounded by that position
    (else 100.04 at one decimal loses the zeros of "100" and prints with a different magnitude);
    (b) where zeros are written back in front of the cursor after a carry (the loop `--index; storage[index] = '0'`), their count is
    computed from the point position or from the lengths of the string, not from the ESTIMATED digit count the caller passes in
    (the estimate is one short for 10.x, 100.x, 1000.x ...)."""
    r = Rule("PR-point", "zero digits are skipped only up to the decimal point, and restored zeros are counted from it", floor=4)
    for q in ("Qentem::Digit::formatStringNumberFixed", "Qentem::Digit::formatStringNumberDefault"):
        fs = [f for f in m.fns(q, required=False) if not f.inst and f.cfg]
        if not fs:
            r.broke("%s not found" % q)
            continue
        f = fs[0]
        ctx.note_fn(f)
        # the decimal-point position: a local initialised from a sum that mentions the fraction-length parameter
        frac = [p_ for p_ in f.params if "fraction" in p_["n"]]
        est = [p_ for p_ in f.params if "calculated" in p_["n"] or "digits" in p_["n"]]
        points = {}
        for x in astq.nodes_of(f, "DeclStmt"):
            for d in f.nodes[x]["decls"]:
                if "d" in d and d.get("init", -1) >= 0 and frac and any(f.nodes[y].get("d") == frac[0]["d"] for y in f.walk(d["init"])) and \
                        f.nodes[f.strip_casts(d["init"])]["k"] == "BinaryOperator" and f.nodes[f.strip_casts(d["init"])]["op"] == "+":
                    points[d["d"]] = (d["n"], x)
        if not points:
            r.broke("%s: the local holding the position of the decimal point was not found" % q)
            continue
        par = f.parents()

        def in_scope(decl_stmt, node):
            """the DeclStmt precedes the node inside one of the node's enclosing compound statements"""
            up = node
            while up is not None:
                p_ = par.get(up)
                if p_ is not None and f.nodes[p_]["k"] == "CompoundStmt":
                    ch = f.nodes[p_].get("ch", [])
                    if decl_stmt in ch and up in ch and ch.index(decl_stmt) < ch.index(up):
                        return True
                up = p_
            return False
        for w in astq.nodes_of(f, "WhileStmt"):
            cond = f.nodes[w].get("cond", -1)
            if cond is None or cond < 0:
                continue
            ct = f.text(cond)
            if not ("Zero" in ct and "==" in ct and "*" in ct):
                continue
            vis = [(nm, st) for (did, (nm, st)) in points.items() if in_scope(st, w)]
            if not vis:
                continue      # no point position yet (the exponent form drops the point altogether)
            uses = any(f.nodes[y].get("d") in points for y in f.walk(cond))
            r.ob(f.q, "while %s" % ct[:70], uses, "the skip of zero digits is bounded by `%s`" % vis[0][0] if uses else
                 "zero digits are skipped without regard to `%s`: zeros of the integer part are dropped with the trailing zeros of the fraction (100.04 at one decimal prints as 1000)" % vis[0][0], f.loc(w))
        # (b) zeros written back: the counter local that controls a loop storing Zero at --index
        for w in astq.nodes_of(f, "WhileStmt"):
            body_t = " ".join(f.text(y) for y in f.walk(f.nodes[w].get("body", w)) if f.nodes[y]["k"] in ("BinaryOperator", "UnaryOperator"))
            cond = f.nodes[w].get("cond", -1)
            if cond is None or cond < 0 or "Zero" not in body_t or "--" not in body_t:
                continue
            cn = [f.nodes[y] for y in f.walk(cond) if f.nodes[y]["k"] == "DeclRefExpr" and f.nodes[y].get("dk") == "var"]
            if len(cn) != 1:
                continue
            counter = cn[0]["d"]
            # all assignments to the counter: none may read the estimate parameter (directly or through a local)
            tainted = set(p_["d"] for p_ in est)
            changed = True
            while changed:
                changed = False
                for x in astq.nodes_of(f, "DeclStmt"):
                    for d in f.nodes[x]["decls"]:
                        if "d" in d and d["d"] not in tainted and d.get("init", -1) >= 0 and any(f.nodes[y].get("d") in tainted for y in f.walk(d["init"])):
                            tainted.add(d["d"])
                            changed = True
            bad = None
            for x in f.walk():
                n = f.nodes[x]
                if n["k"] == "BinaryOperator" and n["op"] == "=" and f.nodes[f.strip(n["ch"][0])].get("d") == counter:
                    if any(f.nodes[y].get("d") in tainted for y in f.walk(n["ch"][1])):
                        bad = x
            r.ob(f.q, "zeros restored in front of the cursor (%s)" % cn[0]["n"], bad is None,
                 "their count is computed from the point position and the lengths of the digit string" if bad is None else
                 "`%s` takes the count from the caller's ESTIMATE of the number of integer digits, which is one short just above a power of ten (119.95 at one decimal prints as 1200)" % f.text(bad)[:60],
                 f.loc(bad) if bad is not None else f.loc(w))
    return r
