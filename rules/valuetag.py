"""Tagged-union specifications discovered from the model (Value, QExpression, TagBit) and the E-TAG driver."""
from qlib import astq, tagstate
from qlib.model import AnalysisBroken
from qlib.tagstate import Spec, RS


def value_spec(m):
    en = m.enum("Qentem::ValueType")
    kinds = [e["n"] for e in en["enumerators"]]
    preds, setters = {}, {}
    for f in m.functions:
        if f.cls != "Qentem::Value" or f.inst:
            continue
        rets = astq.returns(f)
        if len(rets) == 1 and not f.params:
            rv = f.nodes[f.strip(f.nodes[rets[0]]["val"])]
            if rv["k"] == "BinaryOperator" and rv["op"] == "==":
                a, b = rv["ch"]
                an = f.nodes[f.strip(a)]
                if an["k"] in ("CallExpr", "CXXMemberCallExpr") and f.call_simple_name(f.strip(a)) == "Type":
                    bn = f.nodes[f.strip(b)]
                    if bn.get("dk") == "enumc":
                        preds[f.name] = bn["n"]
        cs = astq.calls(f)
        if len(cs) == 1 and f.call_simple_name(cs[0]) == "setType" and not f.params:
            an = f.nodes[f.strip(f.call_args(cs[0])[0])]
            if an.get("dk") == "enumc":
                setters[f.name] = an["n"]
    if len(preds) < 8 or len(setters) < 8:
        raise AnalysisBroken("Value: kind predicates / setters not recognised (%d/%d)" % (len(preds), len(setters)))
    # union members from the record
    recs = [r for r in m.records if r["q"] == "Qentem::Value" and not r.get("spec")]
    if not recs:
        raise AnalysisBroken("Value record not found")
    own = ["Object", "Array", "String"]
    nonown = frozenset(kinds) - frozenset(own)
    members = {"object_": frozenset(["Object"]), "array_": frozenset(["Array"]), "string_": frozenset(["String"]),
               "number_": nonown, "value_": frozenset(["ValuePtr"])}
    # the tag <-> member map is confirmed from the constructors: Value(ObjectT&&) : object_{..} { setTypeToObject(); } ...
    confirmed = {}
    for f in m.functions:
        if f.cls == "Qentem::Value" and f.kind == "ctor" and not f.inst:
            inits = [i.get("field") for i in f.d.get("inits", []) if i.get("written")]
            sets = [setters.get(f.call_simple_name(c)) for c in astq.calls(f) if f.call_simple_name(c) in setters]
            if len(inits) == 1 and len(set(sets)) >= 1 and inits[0] in members:
                for k in sets:
                    confirmed.setdefault(inits[0], set()).add(k)
    # (a constructor that pairs a member with a foreign kind is reported by TS-sync on that constructor's exit)
    if len(confirmed) < 4:
        raise AnalysisBroken("Value: fewer than 4 member<->kind pairs confirmed by the constructors")
    sp = Spec("Qentem::Value", "Qentem::ValueType", kinds, members, own, {"Type"}, preds, setters, "setType", "reset",
              entry_zero=["copyValue"])
    # the numeric views of number_ and the kinds they represent (from the numeric constructors / setters)
    sp.subfields = {"number_": {"Natural": frozenset(["UIntLong"]), "Integer": frozenset(["IntLong"]), "Real": frozenset(["Double"])}}
    return sp


def initial_for(f, spec):
    if f.kind in ("ctor", "copyctor", "movector"):
        first = frozenset(["Undefined"]) if "Undefined" in spec.kinds else frozenset([sorted(spec.kinds)[0]])
        return RS(first, first, True, True, 0)
    return None


def run_class(ctx, m, spec, rule_t1, rule_tx, entry_zero=(), suppress=()):
    """analyse every uninstantiated member of the class; entry_zero: methods whose contract is 'payload zero on entry'
    (checked at their call sites)"""
    n_fn = 0
    for f in m.functions:
        if f.cls != spec.cls or f.inst or not f.cfg:
            continue
        n_fn += 1
        ctx.note_fn(f)
        init = initial_for(f, spec)
        if f.name in entry_zero or f.name in spec.entry_zero:
            init = RS(frozenset(), frozenset(spec.kinds), True, False, 0)
        obs = tagstate.run(m, f, spec, init)
        tx_seen = set()
        for (rule, nid, ok, why, key) in obs:
            if rule == "TX":
                recv = key.split("#")[0]
                if (f.sig, recv) in tx_seen:
                    continue
                tx_seen.add((f.sig, recv))
                rule_tx.ob(f.sig, "exit state of `%s`" % recv, ok, why, f.loc(nid))
            elif rule == "T1s":
                rule_t1.ob(f.sig, f.text(nid), ok, why, f.loc(nid), {"receiver": key.split("#")[0]})
            elif rule in ("TR", "TE"):
                rule_tx.ob(f.sig, f.text(nid), ok, why, f.loc(nid))
            else:
                if f.name == spec.reset and not ok:
                    # the reset routine itself re-initialises the payload member by member; its effect is decided by
                    # TS-zero (layout) and the ownership rules, not by the kind of the payload it is tearing down
                    o = rule_t1.ob(f.sig, f.text(nid), True, "inside the reset routine (decided by TS-zero): " + why, f.loc(nid), nontrivial=False)
                    continue
                rule_t1.ob(f.sig, f.text(nid), ok, why, f.loc(nid), {"receiver": key.split("#")[0]})
        # every analysed function contributes an exit obligation when nothing was reported
        if not tx_seen and f.kind != "dtor":
            rule_tx.ob(f.sig, "exit state", True, "payload and discriminant agree (or the payload is zero) on every exit", "%s:%d" % (f.file.split("/Include/")[-1], f.line), nontrivial=False)
    return n_fn


def tagbit_spec(m):
    en = m.enum("Qentem::Tags::TagType")
    kinds = [e["n"] for e in en["enumerators"]]
    accessors = {}
    makers = {}
    for f in m.functions:
        if f.cls != "Qentem::Tags::TagBit" or f.inst:
            continue
        if f.name.startswith("Get") and f.name.endswith("Tag") and not f.params:
            rec = f.d.get("ret", "").replace("&", "").replace("const", "").strip().split("::")[-1]
            accessors[f.name] = rec
        if f.name.startswith("Make") and f.name.endswith("Tag"):
            ks = [f.nodes[x]["n"] for x in f.walk() if f.nodes[x]["k"] == "DeclRefExpr" and f.nodes[x].get("dk") == "enumc" and (f.nodes[x].get("q") or "").startswith("Qentem::Tags::TagType::")]
            if len(ks) == 1:
                makers[f.name] = ks[0]
    if len(accessors) < 6 or len(makers) < 7:
        raise AnalysisBroken("TagBit: accessors/makers not recognised (%d/%d)" % (len(accessors), len(makers)))
    # record type -> kinds, from the makers: MakeLoopTag allocates LoopTag and sets Loop
    rec_kinds = {}
    for f in m.functions:
        if f.cls == "Qentem::Tags::TagBit" and not f.inst and f.name in makers:
            rec = f.d.get("ret", "").replace("*", "").strip().split("::")[-1]
            rec_kinds.setdefault(rec, set()).add(makers[f.name])
    acc = {name: frozenset(rec_kinds.get(rec, ())) for name, rec in accessors.items()}
    if any(not v for v in acc.values()):
        raise AnalysisBroken("TagBit: an accessor has no maker of the same record type: %s" % {k: sorted(v) for k, v in acc.items()})
    return Spec("Qentem::Tags::TagBit", "Qentem::Tags::TagType", kinds, {}, [k for k in kinds if k != "None"], {"GetType"}, {}, makers, None, "Clear",
                accessors=acc, type_field="type_")
