"""C09 -- text to number (thin: tables, boundary constants, protocols)."""
from qlib import astq, tab, dataflow, zonecheck
from qlib.model import AnalysisBroken
from qlib.partition import Partitioned
from qlib.report import Rule
from qlib.zonerules import run_zone
from tables.contracts import CONTRACTS

META = {
    "explanation": "Thin structural check. (TB-bounds) the 64-bit overflow test of the integer fast path uses "
                   "floor((2^64-1)/10) and the digit (2^64-1) mod 10, the signed limit is 2^63-1, the digit window is "
                   "19 and the decimal range constants are 309/324; (PR-range) both power routines are reached only "
                   "after the range rejection; (TB-powers) PowerOfFive[i] == 5^i, table lengths, 10^k, MaxShift, and "
                   "the reciprocal tables are floor/ceil of 2^(w+shift_i)/5^i with the shift table = bitlen(5^i)-1 "
                   "(computed with Python integers); (SB-roundcarry) every round-half-up step `n += n & 1; n >>= 1` is "
                   "followed by the carry into the exponent; (PR-sign) every `return Real` is reached with the sign "
                   "bit applied whenever the numeral was negative (path-partitioned typestate); scanner bounds (E-ZONE, "
                   "shared with C05); no code unit is narrowed below 32 bits. Not decided: <= 1 ulp accuracy, rounding "
                   "of ties, the [1.8e308, 1e310) overflow named in the property.",
    "not_decided": "accuracy within one ulp; rounding; magnitude overflow between DBL_MAX and 1e310",
    "assumptions": ["cursor + small constant does not overflow SizeT"],
}
META["explanation"] += " " + '(TB-casepair, shared with C06) both spellings of the exponent marker are tested together.'
META["explanation"] += " " + '(PR-expmarker, PR-accumulate: shared with C06) an exponent marker under the cursor is consumed by the exponent scanner; recognised digits are accumulated.'
META["explanation"] += " " + '(ACC-wrap) a decimal accumulation in a loop bounded only by the end of the input is under a bound on the accumulator itself (the mantissa loops are bounded by a local 19-digit window); one named exception, the unchecked FastStringToNumber.'
META["explanation"] += " " + '(SB-window) the two sibling computations of the 19-digit window clamp from the cursor the window starts at.'
META["explanation"] += " " + '(SB-span) every position difference assigned to e_extra_p10_power has a left operand E-ZONE proves <= the cursor offset where it is evaluated (a digit count never counts units ahead of the cursor); catches seeded C09-w4-3.'
META["explanation"] += " " + '(FIELD-fit) in powerOfPositiveTen the biased exponent is found to be at most 2046 on every path before it is shifted into the 11-bit exponent field (must-analysis over the comparisons of that local with 2046/2047).'
META["explanation"] += " " + '(UNS-shift) in powerOfPositiveTen an unsigned difference used as a shift amount is proven by E-ZONE not to wrap below zero (the unguarded bit - 53 of powerOfNegativeTen is listed as not decided).'

U64 = (1 << 64) - 1


META["explanation"] += " " + '(ERR-scan) see C07. (RANGE-nonzero) the rejection that compares the decimal exponent with 309 / 324 is dominated by the true edge of number.Natural != 0: 0e400 is zero.'

def run(ctx):
    m = ctx.pattern()
    rules = []
    f = m.fn("Qentem::Digit::stringToNumber")
    ctx.note_fn(f)

    # ---------------- TB-bounds
    r = Rule("TB-bounds", "integer overflow boundary, signed limit, digit window and decimal range constants", floor=6)
    gt = eq = digit_cmp = None
    for i in astq.nodes_of(f, "BinaryOperator"):
        n = f.nodes[i]
        a = f.text(n["ch"][0])
        c = f.const_value(n["ch"][1])
        if a == "number.Natural" and n["op"] == ">" and c is not None and c > (1 << 60):
            gt = (c, i)
        if a == "number.Natural" and n["op"] == "==" and c is not None and c > (1 << 60):
            eq = (c, i)
            # the sibling digit test inside the same && expression
            par = f.parents().get(f.parents().get(i, -1), -1)
            for x in f.walk(par if par >= 0 else i):
                xn = f.nodes[x]
                if xn["k"] == "BinaryOperator" and xn["op"] == ">" and f.text(xn["ch"][0]) == "digit":
                    digit_cmp = (m.eval_nodes(f.nodes, f.strip_casts(xn["ch"][1])), x)
    want = U64 // 10
    r.ob(f.q, "number.Natural > K", gt is not None and gt[0] == want, "K = %s, floor((2^64-1)/10) = %#x" % (hex(gt[0]) if gt else None, want), f.loc(gt[1]) if gt else "")
    r.ob(f.q, "number.Natural == K", eq is not None and eq[0] == want, "K = %s, floor((2^64-1)/10) = %#x" % (hex(eq[0]) if eq else None, want), f.loc(eq[1]) if eq else "")
    r.ob(f.q, "digit > D", digit_cmp is not None and digit_cmp[0] == ord("0") + U64 % 10,
         "D = %r, (2^64-1) mod 10 = %d" % (chr(digit_cmp[0]) if digit_cmp and digit_cmp[0] else None, U64 % 10), f.loc(digit_cmp[1]) if digit_cmp else "")
    lim = [f.const_value(f.nodes[i]["ch"][1]) for i in astq.nodes_of(f, "BinaryOperator") if f.nodes[i]["op"] == "<=" and f.text(f.nodes[i]["ch"][0]) == "number.Natural"]
    # the smallest 64-bit integer is -2^63: a magnitude of exactly 2^63 is still an integer, and negating it is only defined on
    # the unsigned member (the signed negation of INT64_MIN overflows)
    lim_nodes = [i for i in astq.nodes_of(f, "BinaryOperator") if f.nodes[i]["op"] == "<=" and f.text(f.nodes[i]["ch"][0]) == "number.Natural"]
    signed_neg = False
    for i in lim_nodes:
        up = f.parents().get(i)
        while up is not None and f.nodes[up]["k"] != "IfStmt":
            up = f.parents().get(up)
        if up is not None:
            signed_neg = signed_neg or any(f.nodes[x]["k"] == "UnaryOperator" and f.nodes[x]["op"] == "-" and "Integer" in f.text(f.nodes[x]["ch"][0]) for x in f.walk(f.nodes[up]["then"]))
    r.ob(f.q, "number.Natural <= S", lim == [1 << 63] and not signed_neg,
         "S = %s; want 2^63 (the magnitude of the smallest integer) with the negation done on the unsigned member%s" % ([hex(x) for x in lim if x], "" if not signed_neg else
         " -- found a signed negation of number.Integer, which overflows for 2^63") +
         ("" if lim == [1 << 63] else ": -9223372036854775808 is read as a real, a Value holding INT64_MIN changes its kind through Stringify and Parse"), "Include/Digit.hpp:%d" % f.line)
    ml = [d for i in astq.nodes_of(f, "DeclStmt") for d in f.nodes[i]["decls"] if d.get("n") == "max_length"]
    r.ob(f.q, "max_length", bool(ml) and f.const_value(ml[0]["init"]) == 19, "19 decimal digits always fit 64 bits (10^19 < 2^64 <= 10^20)", "Include/Digit.hpp:%d" % f.line)
    consts = sorted(set(f.const_value(f.nodes[i]["ch"][1]) for i in astq.nodes_of(f, "BinaryOperator")
                        if f.nodes[i]["op"] == ">" and f.const_value(f.nodes[i]["ch"][1]) in (309, 324, 308, 323, 310, 325)))
    r.ob(f.q, "range constants", consts == [309, 324], "decimal exponent range tests use %s (want 309/324)" % consts, "Include/Digit.hpp:%d" % f.line)
    rules.append(r)

    # ---------------- PR-range
    r = Rule("PR-range", "powerOfNegativeTen/powerOfPositiveTen are reached only after the range rejection", floor=2)
    rng = None
    for i in astq.nodes_of(f, "IfStmt"):
        t = f.text(f.nodes[i]["cond"])
        if "324" in t and "309" in t:
            rng = i
    for name in ("powerOfNegativeTen", "powerOfPositiveTen"):
        cs = astq.calls(f, name)
        ok = rng is not None and len(cs) == 1 and bool(astq.returns(f, f.nodes[rng]["then"]))
        if ok:
            # the last atom of the range condition: every path to the call takes its false edge or an earlier
            # short-circuit exit of the same condition; decided by removing the then-branch: the call must stay
            # reachable only through the `if`
            then_first = None
            tb = dataflow.block_of(f, cs[0])
            cond_nodes = set(f.walk(f.nodes[rng]["cond"]))
            # blocks whose terminator condition belongs to the range test
            rb = [b["id"] for b in f.cfg["blocks"] if b.get("cond") in cond_nodes]
            reach = dataflow.reachable(f, lambda b, s, kind, payload: b["id"] in rb)
            ok = bool(rb) and tb is not None and tb not in reach
        r.ob(f.q, name, ok, "every path to the call passes the range test `%s`, whose true side returns NotANumber" % (f.text(f.nodes[rng]["cond"])[:60] if rng else None),
             f.loc(cs[0]) if cs else "")
    rules.append(r)

    # ---------------- TB-powers
    r = Rule("TB-powers", "power-of-five/ten tables and reciprocal tables are exact", floor=40)
    dc = tab.members(m, "Qentem::DigitUtils::DigitConst")
    for targs, mm in sorted(dc.items()):
        w = int("".join(ch for ch in targs if ch.isdigit())) * 8
        p5 = tab.var_list(m, tab.local_table(m, "Qentem::DigitUtils::DigitConst::GetPowerOfFive", "PowerOfFive", targs)[0])
        inv = tab.var_list(m, tab.local_table(m, "Qentem::DigitUtils::DigitConst::GetPowerOfOneOverFive", "PowerOfOneOverFive", targs)[0])
        sh = tab.var_list(m, tab.local_table(m, "Qentem::DigitUtils::DigitConst::GetPowerOfOneOverFiveShift", "PowerOfOneOverFiveShift", targs)[0])
        mp5, mp10 = tab.var_int(m, mm["MaxPowerOfFive"]), tab.var_int(m, mm["MaxPowerOfTen"])
        tag = "DigitConst" + targs
        r.ob(tag, "MaxShift", tab.var_int(m, mm["MaxShift"]) == w, "MaxShift %s == %d bits" % (tab.var_int(m, mm["MaxShift"]), w), tab.rel(mm["MaxShift"]))
        r.ob(tag, "MaxPowerOfTenValue", tab.var_int(m, mm["MaxPowerOfTenValue"]) == 10 ** mp10 and 10 ** mp10 < (1 << w) <= 10 ** (mp10 + 1) * 10,
             "10^%d = %d" % (mp10, 10 ** mp10), tab.rel(mm["MaxPowerOfTenValue"]))
        r.ob(tag, "MaxPowerOfFive", 5 ** mp5 < (1 << w) <= 5 ** (mp5 + 1), "5^%d is the largest power of five below 2^%d" % (mp5, w), tab.rel(mm["MaxPowerOfFive"]))
        r.ob(tag, "table lengths", len(p5) == mp5 + 1 and len(inv) == mp5 + 1 and len(sh) == mp5 + 1,
             "PowerOfFive %d, reciprocal %d, shifts %d entries; MaxPowerOfFive + 1 = %d" % (len(p5), len(inv), len(sh), mp5 + 1), "Include/DigitUtils.hpp")
        for i, v in enumerate(p5):
            r.ob(tag, "PowerOfFive[%d]" % i, v == 5 ** i, "%s vs 5^%d = %d" % (v, i, 5 ** i), "Include/DigitUtils.hpp")
        for i, (v, s) in enumerate(zip(inv, sh)):
            if i == 0:
                continue
            exact = (1 << (w + s)) / (5 ** i)
            ok = v in ((1 << (w + s)) // (5 ** i), (1 << (w + s)) // (5 ** i) + 1) and s == (5 ** i).bit_length() - 1 and (1 << (w - 1)) <= v < (1 << w)
            r.ob(tag, "reciprocal[%d]" % i, ok, "entry %s, shift %s; 2^(%d+%d)/5^%d = %.1f, bitlen(5^%d)-1 = %d" % (v, s, w, s, i, exact, i, (5 ** i).bit_length() - 1), "Include/DigitUtils.hpp")
    rules.append(r)

    # ---------------- SB-roundcarry
    r = Rule("SB-roundcarry", "every round-half-up step (n += n & 1; n >>= 1) is followed by the carry into the exponent", floor=4)
    for fn in m.functions:
        if fn.inst or not fn.file.endswith("Digit.hpp"):
            continue
        for blk in astq.nodes_of(fn, "CompoundStmt"):
            ch = fn.nodes[blk].get("ch", [])
            for k in range(len(ch) - 1):
                a, b = fn.nodes[ch[k]], fn.nodes[ch[k + 1]]
                if a["k"] == "CompoundAssignOperator" and a["op"] == "+=" and "& " in fn.text(a["ch"][1]) and fn.text(a["ch"][1]).endswith("{1})") is not None \
                        and fn.text(a["ch"][1]).replace(" ", "").startswith("(" + fn.text(a["ch"][0]).replace(" ", "") + "&") \
                        and b["k"] == "CompoundAssignOperator" and b["op"] == ">>=" and fn.const_value(b["ch"][1]) == 1 \
                        and fn.text(b["ch"][0]) == fn.text(a["ch"][0]):
                    var = fn.text(a["ch"][0])
                    nxt = fn.nodes[ch[k + 2]] if k + 2 < len(ch) else None
                    ok = False
                    why = "no statement follows the rounding step"
                    if nxt is not None:
                        t = fn.text(ch[k + 2])
                        ok = nxt["k"] in ("CompoundAssignOperator", "BinaryOperator") and nxt["op"] in ("+=", "=") and \
                            ("(%s > " % var) in t and any(str(c) in t for c in (0x1FFFFFFFFFFFFF, 0xFFFFFFFFFFFFF))
                        why = "next statement: %s" % t[:90]
                    r.ob(fn.q, "%s += (%s & 1); %s >>= 1" % (var, var, var), ok, why, fn.loc(ch[k]))
    rules.append(r)

    # ---------------- PR-sign
    r = Rule("PR-sign", "a negative numeral never reaches `return Real` without the sign bit", floor=2)

    def retag(fn, tag, e):
        if "n" not in e or e.get("k"):
            return tag
        n = fn.nodes[e["n"]]
        if n["k"] == "CompoundAssignOperator" and n["op"] == "|=" and fn.const_value(n["ch"][1]) in (0x8000000000000000, -0x8000000000000000):
            return (tag[0], True)
        if n["k"] == "BinaryOperator" and n["op"] == "=" and fn.text(n["ch"][0]) == "is_negative":
            v = fn.const_value(n["ch"][1])
            return ("T" if v == 1 else "F" if v == 0 else "?", tag[1])
        if n["k"] == "DeclStmt":
            for d in n["decls"]:
                if d.get("n") == "is_negative":
                    v = fn.const_value(d["init"]) if d.get("init", -1) >= 0 else None
                    return ("T" if v == 1 else "F" if v == 0 else "?", tag[1])
        return tag

    def retag_edge(fn, tag, cond, truth):
        n = fn.nodes[fn.strip(cond)]
        neg = False
        while n["k"] == "UnaryOperator" and n["op"] == "!":
            neg = not neg
            n = fn.nodes[fn.strip(n["ch"][0])]
        if n["k"] == "DeclRefExpr" and n["n"] == "is_negative":
            val = truth != neg
            if tag[0] in ("T", "F") and (tag[0] == "T") != val:
                return None   # infeasible
            return ("T" if val else "F", tag[1])
        return tag

    class Unit(dataflow.Client):
        def initial(self, fn):
            return 0

        def copy(self, s):
            return s

        def join(self, a, b):
            return 0

        def equal(self, a, b):
            return True

    pz = Partitioned(Unit(), retag, ("?", False), retag_edge)
    states = dataflow.run(f, pz)

    def visit(b, i, e, pst):
        if e is None or "n" not in e or e.get("k"):
            return
        n = f.nodes[e["n"]]
        if n["k"] != "ReturnStmt":
            return
        v = f.nodes[f.strip(n["val"])]
        if v.get("n") != "Real":
            return
        bad = [t for t in pst if t[0] in ("T", "?") and not t[1]]
        r.ob(f.q, "return Real", not bad, "path states (is_negative, sign applied) reaching this return: %s" % sorted(pst), f.loc(e["n"]))
    dataflow.replay(f, pz, states, visit)
    rules.append(r)

    # ---------------- scanner bounds + narrowing
    zr = {"ZB-read": Rule("ZB-read", "raw reads of the numeral stay inside [0,end_offset)", floor=12),
          "ZB-call": Rule("ZB-call", "(pointer,length) arguments stay inside the buffer", floor=1),
          "ZB-ens": Rule("ZB-ens", "the cursor never moves backwards", floor=3)}
    run_zone(ctx, m, CONTRACTS, ["Qentem::Digit::stringToNumber", "Qentem::Digit::parseExponent",
                                 "Qentem::Digit::HexStringToNumber/3", "Qentem::Digit::FastStringToNumber",
                                 "Qentem::Digit::StringToNumber/4", "Qentem::Digit::StringToNumber/3"], zr)
    rules += list(zr.values())
    from rules.common import rule_narrow_units
    rules.append(rule_narrow_units(ctx, m, ["Digit.hpp", "DigitUtils.hpp", "QNumber.hpp"]))
    from rules.common import rule_case_pairs
    rules.append(rule_case_pairs(ctx, m))
    from rules.common import rule_exponent_marker
    rules.append(rule_exponent_marker(ctx, m))
    from rules.common import rule_accumulate
    rules.append(rule_accumulate(ctx, m))
    from rules.common import rule_accumulator_wrap
    rules.append(rule_accumulator_wrap(ctx, m))
    rules.append(rule_window(ctx, m))
    rules.append(rule_span(ctx, m))
    rules.append(rule_field_fit(ctx, m))
    rules.append(rule_unsigned_shift(ctx, m))
    rules.append(rule_range_nonzero(ctx, m))
    from rules.common import rule_scanner_result
    rules.append(rule_scanner_result(ctx, m, ["Digit.hpp"]))
    return rules


def rule_span(ctx, m):
    """SB-span: the scanner turns positions into a digit count: the decimal exponent of the digits that fell outside the
    19-digit window is a difference of two positions of the numeral (`offset - start_offset`, `exp_offset - start_offset`,
    `dot_offset - start_offset`).  Such a difference counts scanned digits only when its left operand is a position the cursor
    has already reached: E-ZONE must prove  left <= offset  where the difference is evaluated.  A position that may lie ahead
    of the cursor (the caller's end of buffer, which is where the numeral could end, not where it does end) counts units that
    were never part of the numeral: 123456789012345678901234 followed by `, 5]` was scaled by four more powers of ten."""
    from qlib import dataflow
    from qlib.zone import ContractTable
    r = Rule("SB-span", "a digit count assigned to e_extra_p10_power is a difference whose left operand is a position <= the cursor", floor=2)
    fs = [f for f in m.fns("Qentem::Digit::stringToNumber", required=False) if not f.inst and f.cfg]
    if not fs:
        r.broke("Digit::stringToNumber not found")
        return r
    f = fs[0]
    ctx.note_fn(f)
    # the subtractions that feed the count
    want = {}
    for i in astq.nodes_of(f, "BinaryOperator"):
        n = f.nodes[i]
        if n["op"] != "=" or f.text(n["ch"][0]) != "e_extra_p10_power":
            continue
        for x in f.walk(n["ch"][1]):
            xn = f.nodes[x]
            if xn["k"] == "BinaryOperator" and xn["op"] == "-":
                want[x] = i
    if not want:
        r.broke("stringToNumber: no assignment of a position difference to e_extra_p10_power was found")
        return r
    _, _, (z, states) = zonecheck.analyse(m, f, ContractTable(CONTRACTS))
    cur = z.name_terms()("offset")
    done = set()

    def visit(b, i, e, st):
        if e is None or e.get("n") not in want or e["n"] in done or st.bottom:
            return
        x = e["n"]
        done.add(x)
        left = f.nodes[x]["ch"][0]
        ll = z.lin(st, left)
        ok = False
        if ll is not None and cur is not None:
            from qlib.zone import Lin
            ok = st.lin_le0(ll - Lin({cur: 1}))
        r.ob(f.q, f.text(x)[:60], ok, "`%s` <= offset holds where the difference is evaluated" % f.text(left) if ok else
             "`%s` is not known to be <= the cursor `offset` here: the difference may count units the scanner never reached" % f.text(left), f.loc(x))
    dataflow.replay(f, z, states, visit)
    for x in want:
        if x not in done:
            r.ob(f.q, f.text(x)[:60], False, "the difference is not an element of any reachable block (not decided)", f.loc(x))
    return r


def rule_window(ctx, m):
    """SB-window: stringToNumber accumulates at most `max_length` digits starting at the first significant one; the end of
    that window is computed at two sibling sites with the clamp  ((end - X) < K) ? end : (Y + K).  The clamp is only a clamp
    when X and Y are the same cursor (the remaining length is measured from where the window starts) and K is the same constant:
    with a different Y the window starts somewhere else (at the decimal point: every zero after it eats one of the 19 digits)."""
    r = Rule("SB-window", "the digit window is clamped from the cursor it starts at: ((end - X) < K) ? end : (X + K)", floor=2)
    fs = [f for f in m.functions if not f.inst and f.cfg and f.q == "Qentem::Digit::stringToNumber"]
    if not fs:
        r.broke("Digit::stringToNumber not found")
        return r
    f = fs[0]
    ctx.note_fn(f)
    for x in f.walk():
        n = f.nodes[x]
        if n["k"] != "ConditionalOperator" or len(n.get("ch", [])) != 3:
            continue
        c, a, b = n["ch"]
        cn = f.nodes[f.strip(c)]
        bn = f.nodes[f.strip(b)]
        if cn["k"] != "BinaryOperator" or cn["op"] != "<" or bn["k"] != "BinaryOperator" or bn["op"] != "+":
            continue
        ln = f.nodes[f.strip(cn["ch"][0])]
        if ln["k"] == "DeclRefExpr":
            # a local that names the remaining length
            for ds in astq.nodes_of(f, "DeclStmt"):
                for d in f.nodes[ds]["decls"]:
                    if d.get("d") == ln.get("d") and d.get("init", -1) >= 0:
                        ln = f.nodes[f.strip(d["init"])]
        if ln["k"] != "BinaryOperator" or ln["op"] != "-":
            continue
        E, X, K = f.text(ln["ch"][0]), f.text(ln["ch"][1]), f.text(cn["ch"][1])
        Y, K2 = f.text(bn["ch"][0]), f.text(bn["ch"][1])
        ok = X == Y and K == K2 and f.text(a) == E
        r.ob(f.q, f.text(x)[:90], ok, "remaining length and window start use the same cursor `%s` and the same width `%s`" % (X, K) if ok else
             "the remaining length is measured from `%s` but the window is placed at `%s` (+ %s): the clamp and the window disagree" % (X, Y, K2), f.loc(x))
    return r



def rule_field_fit(ctx, m):
    """FIELD-fit: powerOfPositiveTen assembles the double by hand: the biased exponent is a local that is shifted left by the
    mantissa width and OR-ed over the sign-less mantissa.  The exponent field is 11 bits wide and 2047 is reserved: a value that
    was only range-checked by the coarse decimal test (exponent + digits <= 309) can exceed 2046 (every numeral between DBL_MAX
    and 1e309), and shifted in unchecked it spills into the sign bit -- 4e308 became -2.5e-309.  The local that is shifted into
    the exponent field is compared with the largest finite biased exponent first, on every path (a dominating comparison with a
    constant in [2046, 2047] whose overflow edge does not reach the shift)."""
    from qlib import dataflow
    r = Rule("FIELD-fit", "the biased exponent is compared with the largest finite value before it is shifted into the exponent field", floor=1)
    fs = [f for f in m.functions if not f.inst and f.cfg and f.q == "Qentem::Digit::powerOfPositiveTen"]
    if not fs:
        r.broke("Digit::powerOfPositiveTen not found")
        return r
    f = fs[0]
    ctx.note_fn(f)
    shifts = []
    for x in f.walk():
        n = f.nodes[x]
        if n["k"] == "CompoundAssignOperator" and n["op"] == "<<=":
            k = f.const_value(f.strip_casts(n["ch"][1]))
            if k is None:
                k = m.eval_nodes(f.nodes, f.strip_casts(n["ch"][1]))
            ln = f.nodes[f.strip(n["ch"][0])]
            if k == 52 and ln["k"] == "DeclRefExpr" and ln.get("dk") == "var":
                shifts.append((x, ln))
    # the one that feeds the exponent field: later OR-ed into the result
    shifts = [(x, ln) for (x, ln) in shifts if any(f.nodes[y]["k"] == "CompoundAssignOperator" and f.nodes[y]["op"] == "|=" and
                                                    f.nodes[f.strip(f.nodes[y]["ch"][1])].get("d") == ln["d"] for y in f.walk())]
    if not shifts:
        r.broke("powerOfPositiveTen: the shift of the biased exponent into its field was not found")
        return r
    blocks = f.blocks()
    for (x, ln) in shifts:
        # must-analysis: "checked" is established on the false edge of  exp > K / exp >= K  (true edge of  exp <= K / exp < K)
        def test_of(c):
            cn = f.nodes[f.strip(c)]
            if cn["k"] != "BinaryOperator" or cn["op"] not in (">", ">=", "<", "<="):
                return None
            a, b = cn["ch"]
            an, bn = f.nodes[f.strip_casts(a)], f.nodes[f.strip_casts(b)]
            kb = f.const_value(f.strip_casts(b))
            if kb is None:
                kb = m.eval_nodes(f.nodes, f.strip_casts(b))
            if an.get("d") == ln["d"] and kb is not None:
                op = cn["op"]
                # which edge means "fits"?
                if op in (">", ">=") and ((op == ">" and kb in (2046,)) or (op == ">=" and kb in (2047,))):
                    return False      # fits on the false edge
                if op in ("<", "<=") and ((op == "<=" and kb in (2046,)) or (op == "<" and kb in (2047,))):
                    return True
            return None
        fact = {f.cfg["entry"]: False}
        work = [f.cfg["entry"]]
        at = None
        it = 0
        while work and it < 4000:
            it += 1
            bid = work.pop()
            st = fact[bid]
            for e in blocks[bid]["el"]:
                if e.get("n") == x:
                    at = st if at is None else (at and st)
            for (s_, kind, payload) in dataflow.successors(f, blocks[bid]):
                out = st
                if kind in ("true", "false") and payload is not None:
                    t = test_of(payload)
                    if t is not None and (kind == "true") == t:
                        out = True
                new_ = out if s_ not in fact else (fact[s_] and out)
                if s_ not in fact or new_ != fact[s_]:
                    fact[s_] = new_
                    work.append(s_)
        r.ob(f.q, f.text(x)[:40], bool(at), "`%s` was found to be at most 2046 on every path to the shift" % ln["n"] if at else
             "`%s` is shifted into the 11-bit exponent field without being compared with 2046: a sum of 2048 or more lands in the sign bit (4e308 parsed to -2.5e-309)" % ln["n"], f.loc(x))
    return r



def rule_unsigned_shift(ctx, m):
    """UNS-shift: a shift amount written as an unsigned difference (bit - 53, 52 - bit) is only meaningful when the difference is
    not negative; one below zero it is 4294967295 and the shift is undefined.  In powerOfPositiveTen the two amounts sit in the
    two branches of a test of `bit` against the mantissa width; E-ZONE proves at each shift that minuend >= subtrahend.  (The
    unguarded `bit - 53` of powerOfNegativeTen relies on the magnitude of the scaled number and is listed as not decided.)"""
    from qlib import dataflow
    from qlib.zone import Zone, Lin, ContractTable
    r = Rule("UNS-shift", "an unsigned difference used as a shift amount is proven not to wrap below zero", floor=2)
    undecided = []
    for q in ("Qentem::Digit::powerOfPositiveTen", "Qentem::Digit::powerOfNegativeTen"):
        fs = [f for f in m.functions if not f.inst and f.cfg and f.q == q]
        if not fs:
            r.broke("%s not found" % q)
            continue
        f = fs[0]
        ctx.note_fn(f)
        z = Zone(m, f, ContractTable({}))
        states = dataflow.run(f, z)
        blocks = f.blocks()
        for bid, st0 in states.items():
            st = z.copy(st0)
            for e in blocks[bid]["el"]:
                x = e.get("n")
                if isinstance(x, int) and not e.get("k") and not st.bottom:
                    n = f.nodes[x]
                    amount_node = None
                    if n["k"] == "CompoundAssignOperator" and n["op"] in ("<<=", ">>="):
                        amount_node = n["ch"][1]
                    elif n["k"] == "CXXOperatorCallExpr" and n.get("op") in ("<<=", ">>=") and len(f.call_args(x)) == 2:
                        amount_node = f.call_args(x)[1]
                    if amount_node is not None:
                        an = f.nodes[f.strip(amount_node)]
                        if an["k"] == "BinaryOperator" and an["op"] == "-":
                            A, B = z.lin(st, an["ch"][0]), z.lin(st, an["ch"][1])
                            if A is not None and B is not None:
                                if st.lin_le0(B - A):
                                    r.ob(f.q, f.text(x)[:50], True, "minuend >= subtrahend is proven on every path to the shift", f.loc(x))
                                elif st.lin_le0((A - B).shift(1)):
                                    r.ob(f.q, f.text(x)[:50], False, "the engine proves the difference NEGATIVE here", f.loc(x))
                                else:
                                    # a dominating test of the same variable that does not imply the bound is a violation; no test at all: not decided
                                    vars_ = set(f.nodes[y].get("d") for y in f.walk(amount_node) if f.nodes[y]["k"] == "DeclRefExpr")
                                    tested = False
                                    up = f.parents().get(x)
                                    while up is not None:
                                        un = f.nodes[up]
                                        if un["k"] == "IfStmt" and any(f.nodes[y].get("d") in vars_ for y in f.walk(un["cond"])):
                                            tested = True
                                        up = f.parents().get(up)
                                    if tested:
                                        r.ob(f.q, f.text(x)[:50], False, "the test that guards this shift does not exclude `%s` < `%s`: one below, the unsigned amount wraps to 4294967295 (a shift by more than the width)" % (
                                            f.text(an["ch"][0]), f.text(an["ch"][1])), f.loc(x))
                                    else:
                                        undecided.append("%s %s at %s" % (f.name, f.text(x)[:40], f.loc(x)[0] if isinstance(f.loc(x), tuple) else f.loc(x)))
                z.transfer(f, st, e, blocks[bid])
    r.notes.append("not decided (no guarding test; relies on the magnitude of the scaled number): " + "; ".join(sorted(set(undecided))))
    return r


def rule_range_nonzero(ctx, m):
    """RANGE-nonzero: a numeral is out of range when its VALUE is beyond the doubles, and the scanner decides that from the
    decimal exponent alone (more than 309 / less than -324 after the digit count is added).  That is only a statement about the
    value when the mantissa is not zero: 0e400 and 0.0e-400 are zero.  Every rejection whose condition compares the exponent with
    those limits is dominated by the true edge of `number.Natural != 0` (or the false edge of `== 0`)."""
    from qlib import dataflow
    r = Rule("RANGE-nonzero", "the exponent-range rejection of the number scanner is reached only for a non-zero mantissa", floor=1)
    fs = [f for f in m.fns("Qentem::Digit::stringToNumber", required=False) if not f.inst and f.cfg]
    if not fs:
        r.broke("Digit::stringToNumber not found")
        return r
    f = fs[0]
    ctx.note_fn(f)
    found = 0
    for i in astq.nodes_of(f, "IfStmt"):
        cond = f.nodes[i]["cond"]
        lits = set(f.const_value(y) for y in f.walk(cond) if f.nodes[y]["k"] in ("IntegerLiteral", "CXXFunctionalCastExpr", "InitListExpr"))
        if not ({309, 324, 308, 323} & lits):
            continue
        if not any("NotANumber" in f.text(x) for x in astq.returns(f, f.nodes[i]["then"])):
            continue
        found += 1
        ok, via = False, None
        for y in f.walk():
            yn = f.nodes[y]
            if yn["k"] == "BinaryOperator" and yn["op"] in ("!=", "==", ">") and "Natural" in f.text(yn["ch"][0]) and f.const_value(f.strip_casts(yn["ch"][1])) == 0:
                try:
                    tgt = [x for x in astq.returns(f, f.nodes[i]["then"]) if "NotANumber" in f.text(x)][0]
                    if dataflow.dominated_by_branch(f, tgt, y, yn["op"] != "=="):
                        ok, via = True, y
                        break
                except Exception:
                    pass
        r.ob(f.q, f.text(cond)[:70], ok, "reached only under `%s`" % f.text(via) if ok else
             "the exponent-range rejection is reached for a zero mantissa too: 0e400 and 0.0e-400 are zero, not out of range", f.loc(i))
    if not found:
        r.broke("stringToNumber: the exponent-range rejection (309 / 324) was not found")
    return r
