"""C12 -- a Value behaves as an abstract JSON document under every operation sequence (typestate clauses)."""
from qlib import astq
from qlib.model import AnalysisBroken
from qlib.report import Rule
from rules import valuetag

META = {
    "explanation": "E-TAG: typestate of the tagged union over the clang CFG of every uninstantiated Value member (all "
                   "Char_T). Per receiver the analysis tracks, as a small disjunction, the set of kinds the payload "
                   "may hold, the set of values the discriminant may hold, whether the payload is all-zero and whether "
                   "both agree; facts come from switch(Type()) arms, isK() predicates (discovered from their bodies), "
                   "local copies of the discriminant, equality of two discriminants, setType* calls, reset() and "
                   "Memory::Move of a member. (TS-value) every touch of object_/array_/string_/number_/value_ happens "
                   "with the payload proven to be of that member's kind, or on a zero/moved payload that the access "
                   "(re)initialises; (TS-sync) on every exit no object is left with a discriminant written "
                   "independently of a payload that may own memory, or naming an owning kind over a payload of another "
                   "kind; reset() is only called while in sync; copyValue's zero-entry contract holds at its call "
                   "sites; (TS-zero, instantiation view + record layout) reset() leaves every byte of the 16-byte "
                   "payload zero in every arm. Not decided: agreement with an abstract document model over histories.",
    "not_decided": "model agreement over operation histories (values read back, order, sizes)",
    "assumptions": ["public methods re-establish the class invariant (payload kind == discriminant) for other receivers"],
}
META["explanation"] += " " + '(SB-overload) the const& and && overloads of one Value operation that do not forward to each other apply the same kind tests to this value, the source and its elements. (RV-use) an rvalue-reference parameter is only moved from, inspected through members or emptied explicitly, never named as a plain value (which copies it).'
META["explanation"] += " " + '(PR-recurse) every path through a container arm of Value::Compress reaches the loop that compresses the children, or empties the container.'
META["explanation"] += " " + '(IDX-digits, shared with C02) an array element is addressed by a validated decimal index only.'
META["explanation"] += " " + '(SB-getfilter) the GetValue overloads return a member only after an isUndefined() test on every path (must-analysis), or the answer of a recursive GetValue.'
META["explanation"] += " " + '(PR-mergefilter) Merge appends defined elements one by one (each tested with isUndefined() on every path), never a whole source array.'

SUPPRESS = [
    ("Qentem::Value::Storage()", "this.array_",
     "Object arm falls through to the Array arm only when object_.Storage() returned null: the object holds no block, its "
     "first pointer field is null, and array_.Storage() reads that same null pointer (layout: both members start with the "
     "storage pointer; re-checked by TS-zero's layout data)"),
    ("Qentem::Value::End() const", "this.array_", "same fall-through as Storage(): reached only with a null object storage"),
]


META["explanation"] += " " + '(PTR-follow, shared by C08 and C12) sibling cross-check over every delegation `value_->m(...)` in the public members of Value: the member asked of the pointee follows pointers itself (it reads value_) or is the caller; the Is...() predicates asked the one-level private tests.'

META["explanation"] += " " + 'Taken over unchanged from other modules because a seeded change to this property was reported by them (rules.common.shared): PR-capacity/PR-rehash/WHO-hash from C13; O12-descendant from C16; PR-consumed from C04.'

def zero_fields_of(mi, fn, depth=0):
    """names of fields of fn's class that are assigned 0/nullptr on the straight-line path of fn (setters followed)"""
    out = set()
    if fn is None or depth > 3:
        return out
    for i in fn.walk():
        n = fn.nodes[i]
        if n["k"] == "BinaryOperator" and n["op"] == "=":
            lhs = fn.nodes[fn.strip(n["ch"][0])]
            rv = fn.const_value(n["ch"][1])
            rn = fn.nodes[fn.strip_casts(n["ch"][1])]
            is_zero = rv == 0 or rn["k"] in ("CXXNullPtrLiteralExpr", "GNUNullExpr") or (rn["k"] == "DeclRefExpr" and False)
            if lhs["k"] == "MemberExpr" and lhs.get("dk") == "field" and is_zero:
                out.add(lhs["n"])
            elif lhs["k"] == "MemberExpr" and lhs.get("dk") == "field" and rn["k"] == "DeclRefExpr" and rn.get("dk") == "param":
                out.add(("param", lhs["n"], rn["n"]))
        if n["k"] in ("CallExpr", "CXXMemberCallExpr") and "fd" in n:
            rc = fn.call_receiver(i)
            if rc is None or fn.nodes[fn.strip(rc)]["k"] == "CXXThisExpr":
                callee = mi.by_id.get(n["fd"])
                if callee is not None and callee.cls and (callee.cls == fn.cls or fn.cls.startswith(callee.cls) or True):
                    sub = zero_fields_of(mi, callee, depth + 1)
                    args = fn.call_args(i)
                    for x in sub:
                        if isinstance(x, tuple):
                            # field = param: zero when the actual argument is 0/nullptr
                            pi = [p["n"] for p in callee.params].index(x[2]) if x[2] in [p["n"] for p in callee.params] else -1
                            if 0 <= pi < len(args):
                                av = fn.const_value(args[pi])
                                an = fn.nodes[fn.strip_casts(args[pi])]
                                if av == 0 or an["k"] in ("CXXNullPtrLiteralExpr", "GNUNullExpr"):
                                    out.add(x[1])
                        else:
                            out.add(x)
    return out


def rule_zero(ctx):
    r = Rule("TS-zero", "reset() leaves every byte of the union payload zero in every arm (record layout)", floor=4)
    mi = ctx.inst()
    resets = [f for f in mi.functions if f.q == "Qentem::Value::reset" and f.inst]
    if not resets:
        raise AnalysisBroken("no instantiation of Value::reset in the driver unit")
    f = resets[0]
    ctx.note_fn(f)
    rec = [x for x in mi.records if x["q"] == "Qentem::Value" and x.get("size") and not x.get("dependent")]
    if not rec:
        raise AnalysisBroken("no complete Value record in the driver unit")
    rec = rec[0]
    union_f = [x for x in rec["fields"] if x.get("anon")]
    if not union_f:
        raise AnalysisBroken("Value: anonymous union field not found")
    usize = union_f[0]["size"]
    urec = [x for x in mi.records if x["id"] == union_f[0].get("recid")]
    if not urec:
        raise AnalysisBroken("Value: union record not exported")
    members = {x["n"]: x for x in urec[0]["fields"]}
    recs_by_id = {x["id"]: x for x in mi.records}

    def all_fields(mrec):
        """fields of a record including those of its (single-inheritance) bases"""
        out = list(mrec["fields"])
        for b in mrec.get("bases", []):
            br = recs_by_id.get(b.get("recid")) if isinstance(b, dict) else None
            if br is not None:
                out += all_fields(br)
        return out

    def member_ranges(mem, zeroed_fields):
        """byte ranges of `mem` covered by the zeroed fields of its class"""
        mrec = recs_by_id.get(members[mem].get("recid"))
        out = []
        if mrec is None:
            return out
        fields = all_fields(mrec)
        for fl in fields:
            if fl["n"] in zeroed_fields and "off" in fl:
                out.append((fl["off"], fl["off"] + fl.get("size", 0)))
        return out

    def cover(ranges, size):
        pos = 0
        for a, b in sorted(ranges):
            if a > pos:
                return pos
            pos = max(pos, b)
        return None if pos >= size else pos

    # whole-payload initialisation after the switch: Memory::Initialize(&member) with a zero default state
    tail_full = False
    sws = astq.nodes_of(f, "SwitchStmt")
    if len(sws) != 1:
        raise AnalysisBroken("Value::reset: expected one switch")
    body = f.nodes[f.body]
    after = [c for c in body.get("ch", []) if c > sws[0]]
    for s in after:
        for c in astq.calls(f, "Initialize", s):
            a = f.call_args(c)
            if len(a) == 1:
                an = f.nodes[f.strip(a[0])]
                if an["k"] == "UnaryOperator" and an["op"] == "&":
                    mem = f.nodes[f.strip(an["ch"][0])].get("n")
                    if mem in members and members[mem].get("size") == usize:
                        mrec = recs_by_id.get(members[mem].get("recid"))
                        fields = all_fields(mrec) if mrec else []
                        zero_default = bool(fields) and all("init" in fl and (fl["nodes"][fl["init"]].get("cv") == 0 or
                                                            fl["nodes"][fl["init"]]["k"] in ("CXXNullPtrLiteralExpr", "InitListExpr", "ImplicitValueInitExpr") or
                                                            any(x.get("k") == "CXXNullPtrLiteralExpr" for x in fl["nodes"])) for fl in fields)
                        rngs = [(fl["off"], fl["off"] + fl.get("size", 0)) for fl in fields if "off" in fl]
                        if zero_default and cover(rngs, usize) is None:
                            tail_full = True
    for labels, stmts in astq.switch_arms(f, sws[0]):
        names = ",".join((l[0] or "").split("::")[-1] for l in labels)
        ranges = []
        for s in stmts:
            for c in astq.calls(f, None, s):
                rc = f.call_receiver(c)
                if rc is not None:
                    rn = f.nodes[f.strip(rc)]
                    mem = rn.get("n")
                    if mem in members and "fd" in f.nodes[c]:
                        callee = mi.by_id.get(f.nodes[c]["fd"])
                        z = set(x for x in zero_fields_of(mi, callee) if not isinstance(x, tuple))
                        base = members[mem].get("off", 0)
                        ranges += [(base + a, base + b) for a, b in member_ranges(mem, z)]
            for i in f.walk(s):
                n = f.nodes[i]
                if n["k"] == "BinaryOperator" and n["op"] == "=" and f.const_value(n["ch"][1]) == 0:
                    lhs = f.nodes[f.strip(n["ch"][0])]
                    if lhs["k"] == "MemberExpr":
                        # number_.Natural = 0
                        inner = f.nodes[f.strip(lhs["ch"][0])] if lhs.get("ch") else {}
                        mem = inner.get("n")
                        if mem in members:
                            mrec = recs_by_id.get(members[mem].get("recid"))
                            fl = [x for x in (mrec or {}).get("fields", []) if x["n"] == lhs["n"]]
                            if fl and "off" in fl[0]:
                                ranges.append((fl[0]["off"], fl[0]["off"] + fl[0].get("size", 0)))
        gap = cover(ranges, usize)
        ok = tail_full or gap is None
        r.ob(f.q, "case " + names, ok,
             ("a whole-payload initialisation follows the switch" if tail_full else
              ("zeroed byte ranges %s cover the %d-byte payload" % (sorted(set(ranges)), usize) if gap is None else
               "zeroed byte ranges %s leave byte %d.. of the %d-byte payload untouched: a later retag to a wider member reads "
               "indeterminate size/capacity fields" % (sorted(set(ranges)), gap, usize))),
             f.loc(stmts[0]) if stmts else "", {"payload_bytes": usize})
    return r


from rules.common import rule_pointer_follow


def _run_own(ctx):
    m = ctx.pattern()
    spec = valuetag.value_spec(m)
    t1 = Rule("TS-value", "every union member of Value is touched only under its kind (or (re)initialises a zero/moved payload)", floor=250)
    tx = Rule("TS-sync", "no exit leaves a discriminant written independently of an owning payload; reset() only while in sync", floor=100)
    n = valuetag.run_class(ctx, m, spec, t1, tx)
    for (fn_sig, construct, reason) in SUPPRESS:
        hit = 0
        for o in t1.obs:
            if not o.ok and o.fn_q == fn_sig and o.construct == construct:
                o.status = "suppressed"
                o.why += " [suppressed: %s]" % reason
                hit += 1
        t1.suppressions.append({"rule": "TS-value", "function": fn_sig, "construct": construct, "reason": reason, "matched": hit})
    t1.notes.append("%d member functions of Value analysed; kinds %s" % (n, sorted(spec.kinds)))
    from rules.common import rule_overload_pairs, rule_rvalue_use, rule_fast_digits
    return [t1, tx, rule_zero(ctx), rule_overload_pairs(ctx, m), rule_rvalue_use(ctx, m), rule_recurse(ctx, m), rule_fast_digits(ctx, m), rule_get_filter(ctx, m), rule_merge_filter(ctx, m), rule_pointer_follow(ctx, m)]



def rule_recurse(ctx, m):
    """PR-recurse: Compress() drops removed members at every depth: whatever it does to the container it is called on (rebuild,
    nothing to drop, ...), it then visits the children.  On the CFG of Value::Compress every path from the entry of a container
    arm to the end of the function passes the head of the loop that calls Compress() on the elements, unless the path emptied
    the container (Reset / Clear: there are no children left).  An early return in front of that loop leaves nested containers
    with their removed slots."""
    from qlib import dataflow
    r = Rule("PR-recurse", "every path through a container arm of Value::Compress reaches the loop that compresses the children (or empties the container)", floor=2)
    fs = [f for f in m.functions if not f.inst and f.cfg and f.q == "Qentem::Value::Compress"]
    if not fs:
        r.broke("Value::Compress not found")
        return r
    f = fs[0]
    ctx.note_fn(f)
    blocks = f.blocks()
    # loops with a recursive call in the body
    rec_loops = []
    for w in astq.nodes_of(f, ("WhileStmt", "DoStmt", "ForStmt")):
        if any(f.call_simple_name(c) == "Compress" and f.call_receiver(c) is not None and f.nodes[f.strip(f.call_receiver(c))]["k"] != "CXXThisExpr" and
               not f.text(f.call_receiver(c)).endswith("_") for c in astq.calls(f, None, f.nodes[w].get("body", w))):
            rec_loops.append(w)
    if len(rec_loops) < 2:
        r.broke("Compress: expected a child-compressing loop for arrays and one for objects, found %d" % len(rec_loops))
        return r
    heads = {}
    for b in f.cfg["blocks"]:
        if b.get("looptarget") in rec_loops:
            heads[b["id"]] = b["looptarget"]
    # condition blocks of those loops count as reaching the loop too
    for w in rec_loops:
        cond = f.nodes[w].get("cond", -1)
        for b in f.cfg["blocks"]:
            if "cond" in b and cond is not None and cond >= 0 and f.strip(b["cond"]) in (set(f.walk(cond)) | {f.strip(cond)}):
                heads[b["id"]] = w
    # arms: the then-branches of the kind tests at the top level (isArray() / isObject())
    arms = []
    for i in astq.nodes_of(f, "IfStmt"):
        ct = f.text(f.nodes[i]["cond"]).replace("this.", "")
        if ct.strip("()") in ("isArray", "isObject") or ct in ("isArray()", "isObject()"):
            arms.append((i, ct))
    if len(arms) < 2:
        r.broke("Compress: the isArray()/isObject() arms were not found")
        return r
    exit_id = f.cfg.get("exit")
    for (i, ct) in arms:
        # entry: true edge of the kind test
        entries = []
        for b in f.cfg["blocks"]:
            if "cond" in b and f.strip(b["cond"]) == f.strip(f.nodes[i]["cond"]):
                entries += [s_ for (s_, k_, p_) in dataflow.successors(f, b) if k_ == "true"]
        region = set(f.walk(f.nodes[i]["then"]))
        bad = None
        seen = set()
        work = [(e_, False) for e_ in entries]
        while work and bad is None:
            bid, done = work.pop()
            if (bid, done) in seen:
                continue
            seen.add((bid, done))
            if bid in heads:
                done = True
            b = blocks[bid]
            last = None
            returns_here = False
            for e in b["el"]:
                x = e.get("n")
                if not isinstance(x, int) or e.get("k"):
                    continue
                if x in region:
                    last = x
                n = f.nodes[x]
                if n["k"] in ("CallExpr", "CXXMemberCallExpr") and f.call_simple_name(x) in ("Reset", "Clear") and x in region:
                    done = True
                if n["k"] == "ReturnStmt":
                    returns_here = True
            succ = dataflow.successors(f, b)
            real = [x for x in (e.get("n") for e in b["el"]) if isinstance(x, int)]
            leaving = returns_here or not succ or (real and not any(x in region for x in real) and bid not in entries)
            if leaving:
                if not done and (returns_here or not succ or True):
                    bad = last if last is not None else f.nodes[i]["cond"]
                continue
            for (s_, k_, p_) in succ:
                if s_ == exit_id:
                    if not done:
                        bad = last if last is not None else f.nodes[i]["cond"]
                    continue
                work.append((s_, done))
        r.ob(f.q, "arm %s" % ct, bad is None, "every path reaches the loop over the children or empties the container" if bad is None else
             "a path leaves the arm at %s without visiting the children: nested containers keep their removed members" % (f.loc(bad)[0] if isinstance(f.loc(bad), tuple) else f.loc(bad)), f.loc(i))
    return r



def rule_get_filter(ctx, m):
    """SB-getfilter: a removed or never-assigned member is Undefined and reads as absent: the keyed and the positional GetValue
    are siblings and both answer nullptr for it.  In every Object / Array arm of the Value::GetValue overloads a returned member
    pointer is either the result of a recursive GetValue on the pointed-to value, or a local that was tested with isUndefined()
    on every path to the return (must-analysis: true edge of !p->isUndefined() / false edge of p->isUndefined())."""
    from qlib import dataflow
    r = Rule("SB-getfilter", "the GetValue overloads return a member only after testing that it is not Undefined", floor=4)
    for f in m.functions:
        if f.inst or not f.cfg or f.cls != "Qentem::Value" or f.name != "GetValue":
            continue
        rets = []
        for x in astq.nodes_of(f, "ReturnStmt"):
            v = f.nodes[x].get("val", -1)
            if v is None or v < 0:
                continue
            vn = f.nodes[f.strip_casts(v)]
            if vn["k"] == "DeclRefExpr" and vn.get("tk") == "ptr" and vn.get("dk") == "var":
                rets.append((x, vn["d"], vn["n"]))
            elif vn["k"] in ("CallExpr", "CXXMemberCallExpr") and f.call_receiver(f.strip_casts(v)) is not None and \
                    f.text(f.call_receiver(f.strip_casts(v))).replace("this.", "") in ("object_", "array_"):
                rets.append((x, None, f.text(v)))
        if not rets:
            continue
        ctx.note_fn(f)
        blocks = f.blocks()
        fact = {f.cfg["entry"]: frozenset()}
        work = [f.cfg["entry"]]
        at = {}
        it = 0
        while work and it < 6000:
            it += 1
            bid = work.pop()
            st = fact[bid]
            for e in blocks[bid]["el"]:
                x = e.get("n")
                if isinstance(x, int) and not e.get("k"):
                    at[x] = st if x not in at else (at[x] & st)
            for (s_, kind, payload) in dataflow.successors(f, blocks[bid]):
                out = st
                if kind in ("true", "false") and payload is not None:
                    c = f.strip(payload)
                    want = kind == "true"
                    while f.nodes[c]["k"] == "UnaryOperator" and f.nodes[c]["op"] == "!":
                        c = f.strip(f.nodes[c]["ch"][0])
                        want = not want
                    cn = f.nodes[c]
                    if cn["k"] in ("CallExpr", "CXXMemberCallExpr") and (f.call_simple_name(c) or "") in ("isUndefined", "IsUndefined") and not want:
                        rc = f.call_receiver(c)
                        if rc is not None and f.nodes[f.strip(rc)]["k"] == "DeclRefExpr":
                            out = st | {f.nodes[f.strip(rc)]["d"]}
                new_ = out if s_ not in fact else (fact[s_] & out)
                if s_ not in fact or new_ != fact[s_]:
                    fact[s_] = new_
                    work.append(s_)
        for (x, d, nm) in rets:
            ok = d is not None and d in at.get(x, frozenset())
            r.ob(f.sig, "return %s" % nm[:40], ok, "the member was found not to be Undefined on every path to this return" if ok else
                 "%s is handed out without an isUndefined() test: a removed or never-assigned member is returned as if it were present (the positional and the keyed read disagree)" % (
                     "`%s`" % nm if d is not None else "the container's answer"), f.loc(x))
    return r



def rule_merge_filter(ctx, m):
    """PR-mergefilter: removed or never-assigned elements are Undefined and are not part of the document: Merge takes over the
    DEFINED elements of an array only.  In the Merge overloads every append to this value's array is an append of one element that
    was tested with isUndefined() on the way (must-analysis), never of the source's whole array (which carries its holes along:
    sizes and indexes of the merged array then disagree with the document)."""
    from qlib import dataflow
    r = Rule("PR-mergefilter", "Merge appends the defined elements of an array one by one, never the array with its holes", floor=1)
    for f in m.functions:
        if f.inst or not f.cfg or f.cls != "Qentem::Value" or f.name != "Merge":
            continue
        blocks = f.blocks()
        apps = []
        for x in f.walk():
            n = f.nodes[x]
            if n["k"] in ("CompoundAssignOperator", "BinaryOperator", "CXXOperatorCallExpr") and n.get("op") == "+=":
                lhs = f.call_args(x)[0] if n["k"] == "CXXOperatorCallExpr" else n["ch"][0]
                rhs = f.call_args(x)[1] if n["k"] == "CXXOperatorCallExpr" else n["ch"][1]
                if f.text(lhs).replace("this.", "") == "array_":
                    apps.append((x, rhs))
        if not apps:
            continue
        ctx.note_fn(f)
        # facts: pointer locals known to point at a defined element
        fact = {f.cfg["entry"]: frozenset()}
        work = [f.cfg["entry"]]
        at = {}
        it = 0
        while work and it < 6000:
            it += 1
            bid = work.pop()
            st = fact[bid]
            for e in blocks[bid]["el"]:
                x = e.get("n")
                if isinstance(x, int) and not e.get("k"):
                    at[x] = st if x not in at else (at[x] & st)
                    n = f.nodes[x]
                    if n["k"] == "UnaryOperator" and n["op"] in ("++", "--"):
                        st = st - {f.nodes[f.strip(n["ch"][0])].get("d")}
            for (s_, kind, payload) in dataflow.successors(f, blocks[bid]):
                out = st
                if kind in ("true", "false") and payload is not None:
                    c = f.strip(payload)
                    want = kind == "true"
                    while f.nodes[c]["k"] == "UnaryOperator" and f.nodes[c]["op"] == "!":
                        c = f.strip(f.nodes[c]["ch"][0])
                        want = not want
                    cn = f.nodes[c]
                    if cn["k"] in ("CallExpr", "CXXMemberCallExpr") and (f.call_simple_name(c) or "") in ("isUndefined", "IsUndefined") and not want:
                        rc = f.call_receiver(c)
                        if rc is not None and f.nodes[f.strip(rc)]["k"] == "DeclRefExpr":
                            out = st | {f.nodes[f.strip(rc)]["d"]}
                new_ = out if s_ not in fact else (fact[s_] & out)
                if s_ not in fact or new_ != fact[s_]:
                    fact[s_] = new_
                    work.append(s_)
        for (x, rhs) in apps:
            rt = f.text(rhs)
            bulk = ".array_" in rt.replace("this.", "") or rt.replace("this.", "").endswith("array_)") and "Move" in rt
            ptrs = [f.nodes[y].get("d") for y in f.walk(rhs) if f.nodes[y]["k"] == "DeclRefExpr" and f.nodes[y].get("tk") == "ptr"]
            if bulk:
                ok, why = False, "`%s` appends the source's whole array: its Undefined (removed) elements come along and the merged array's Size() and indexes disagree with the document" % rt[:50]
            elif ptrs and all(p_ in at.get(x, frozenset()) for p_ in ptrs):
                ok, why = True, "one element, found not to be Undefined on every path to the append"
            else:
                ok, why = False, "`%s` is appended without an isUndefined() test of that element" % rt[:50]
            r.ob(f.sig, f.text(x)[:60], ok, why, f.loc(x))
    return r


def run(ctx):
    rules_ = list(_run_own(ctx) or [])
    from rules.common import shared
    have = set(r_.rid for r_ in rules_)
    rules_ += [r_ for r_ in shared(ctx, 'C13', ['PR-capacity', 'PR-rehash', 'WHO-hash']) if r_.rid not in have]
    rules_ += [r_ for r_ in shared(ctx, 'C16', ['O12-descendant']) if r_.rid not in have]
    rules_ += [r_ for r_ in shared(ctx, 'C04', ['PR-consumed']) if r_.rid not in have]
    return rules_
