"""C16 -- every allocation is released exactly once; nothing is used after release (structural clauses)."""
from qlib import astq
from qlib.model import AnalysisBroken
from qlib.report import Rule

META = {
    "explanation": "E-OWN over the uninstantiated library: (O1-O4) ownership typestate of the storage block of Array, "
                   "String, StringStream and HashTable on the CFG of every member that frees or retargets the block "
                   "(released/saved/handed over/known null before the field is overwritten; released in the destructor; "
                   "never twice; never lost on an exit), with callee summaries (frees / retargets / hands over) computed "
                   "to a fixpoint from the model; (BORROW/ALIAS) no pointer borrowed from a container's storage -- "
                   "including element pointers handed to the container itself and references to elements -- is used "
                   "after a call that may release that storage, across all headers, with interprocedural may-release "
                   "summaries for free functions and member containers; (O6) raw operator new/delete only in "
                   "Memory::Allocate/Deallocate and Memory::Allocate*/Deallocate only in the owning classes; (O7) "
                   "destructor, move, copy and reset of the three tagged unions have an arm for every owning kind, and "
                   "TagBit::Clear disposes every non-trivial record before releasing it; (O2e) container destructors "
                   "dispose their elements before releasing the block; (O12) in the assignment operators of the recursive containers and "
                   "in every member of Value an argument of the object's own type -- possibly one of its elements, v = v[key] -- is "
                   "not read after the object released what it owns; (O11) a value is constructed in place only in a slot that "
                   "insert() has just created (reaching definitions); (O10) a member destroyed in place "
                   "(Memory::Dispose(&m)) is not used again before it is re-initialised; (O8) Make*Tag() only on a "
                   "freshly inserted record; (TS-sync, shared with C12) no discriminant of Value is overwritten while "
                   "the payload may own memory.",
    "not_decided": "net-zero allocation over all operation histories; aliasing-induced double frees beyond the guarded cases",
    "assumptions": ["element types stored in Array/HashTable are relocatable by byte copy"],
}
META["explanation"] += " " + "(O13) a constructor of QExpression / Value assigns an owning union member only over the zero state left by the union's default initialiser, never after another union member was written by the initialiser list."
META["explanation"] += " " + "(O14-target) Memory::Dispose(&x): x is a union member of this object or reached through a storage pointer, never a parameter, local or ordinary member. (O15-order) a range Dispose bounded by End()/Size() is not preceded on any path by a write of the size. (O16-redispose) after a manual Dispose of parts of a container's elements none of its element-destroying members is called on it. BORROW additionally: Deallocate of a base pointer kills every pointer into the same (old) storage while the block returned by an allocating accessor is a new generation; element-owned references die with Drop/Clear/Reset."
META["explanation"] += " " + '(O18-none) a TagBit marked None is not given a block in the same member. (WHO-ptrvalue) pointer-kind Values are created only by the two public entry points.'
META["explanation"] += " " + "O12-descendant additionally covers everything a Value can hold (ObjectT, ArrayT, StringT by reference, a character pointer), pointers taken from the argument, and the argument's own container handed to the growth of this value's container. O13-rawinit additionally: in QExpression's assignment operator the list member is assigned only where the object was found to hold a list. (OUT-alias) a const member that fills a Value & parameter has excluded &parameter == this before it writes it."

ALLOWED_ALLOC_CLASSES = {"Qentem::Array", "Qentem::String", "Qentem::StringStream", "Qentem::HashTable", "Qentem::HArray",
                         "Qentem::HList", "Qentem::Tags::TagBit"}


def run(ctx):
    m = ctx.pattern()
    rules = []
    from rules.own import rule_ownership
    rules.append(rule_ownership(ctx, m))
    from rules.own import rule_descendant
    rules.append(rule_descendant(ctx, m))
    from rules.own import rule_fresh_slot
    rules.append(rule_fresh_slot(ctx, m))
    from rules.borrow import rule_borrow
    import os
    from qlib.model import INCLUDE
    files = sorted(x for x in os.listdir(INCLUDE) if x.endswith(".hpp") and x != "QTest.hpp")
    rules.append(rule_borrow(ctx, m, files=files, alias_params=True))

    # ---------------- O6 who may allocate
    r = Rule("O6-who", "raw new/delete only at the seam; Allocate/Deallocate only in the owning classes", floor=30)
    for f in m.functions:
        if f.inst:
            continue
        for i in f.walk():
            n = f.nodes[i]
            if n["k"] == "CXXNewExpr":
                placement = n.get("nplace", 0) > 0
                ok = f.file.endswith("Memory.hpp") and (placement or f.name == "Allocate")
                r.ob(f.q, f.text(i)[:50], ok, "%s in %s" % ("placement new" if placement else "allocating new", f.q), f.loc(i), nontrivial=not placement)
            if n["k"] == "CXXDeleteExpr":
                r.ob(f.q, f.text(i)[:50], False, "delete expression outside Memory::Deallocate", f.loc(i))
            if n["k"] in ("CallExpr", "CXXMemberCallExpr"):
                nm = f.call_simple_name(i)
                full, _ = f.callee_name(i)
                if nm in ("operator new", "operator delete"):
                    r.ob(f.q, f.text(i)[:50], f.q in ("Qentem::Memory::Allocate", "Qentem::Memory::Deallocate"), "raw %s" % nm, f.loc(i))
                if nm in ("Allocate", "AllocateInit", "Deallocate") and "Memory" in (full or "Memory"):
                    ok = f.cls in ALLOWED_ALLOC_CLASSES or f.q.startswith("Qentem::Memory::")
                    r.ob(f.q, f.text(i)[:60], ok, "%s called from %s" % (nm, f.cls or f.q), f.loc(i))
    rules.append(r)

    # ---------------- O7 owning-kind exhaustiveness
    r = Rule("O7-owning", "destructor/move/copy/reset of the tagged unions have an arm for every owning kind", floor=10)
    unions = [
        ("Qentem::Value", ["Object", "Array", "String"], [("~Value", "dtor"), ("Value", "movector"), ("operator=", "moveassign"), ("copyValue", None), ("reset", None)]),
        ("Qentem::QExpression", ["SubOperation"], [("~QExpression", "dtor"), ("QExpression", "movector"), ("QExpression", "copyctor"), ("operator=", "moveassign")]),
        ("Qentem::Tags::TagBit", ["Variable", "RawVariable", "Math", "SuperVariable", "InLineIf", "Loop", "If"], [("Clear", None), ("TagBit", "copyctor")]),
    ]
    for cls, owning, fns in unions:
        for (name, kind) in fns:
            cands = [f for f in m.functions if not f.inst and f.cls == cls and f.name.split("<")[0] == name and (kind is None or f.kind == kind)]
            if not cands:
                r.broke("%s::%s (%s) not found" % (cls, name, kind))
                continue
            f = cands[0]
            ctx.note_fn(f)
            seen = set()
            for sw in astq.nodes_of(f, "SwitchStmt"):
                for labels, stmts in astq.switch_arms(f, sw):
                    for l in labels:
                        seen.add((l[0] or "").split("::")[-1])
            for i in astq.nodes_of(f, "IfStmt"):
                t = f.text(f.nodes[i]["cond"])
                for k in owning:
                    if "== " + k in t or "== %s)" % k in t or t.endswith(k + ")"):
                        seen.add(k)
            missing = [k for k in owning if k not in seen]
            r.ob(f.sig, "owning kinds", not missing, "arms for %s; missing %s" % (sorted(k for k in owning if k in seen), missing), "%s:%d" % (f.file.split("/Include/")[-1], f.line))
    # TagBit::Clear: non-trivially destructible records are disposed before their block is released
    cl = [f for f in m.functions if not f.inst and f.q == "Qentem::Tags::TagBit::Clear"][0]
    for labels, stmts in astq.switch_arms(cl, astq.nodes_of(cl, "SwitchStmt")[0]):
        names = [(l[0] or "").split("::")[-1] for l in labels]
        if "default" in names:
            continue
        cs = [cl.call_simple_name(c) for s_ in stmts for c in astq.calls(cl, None, s_)]
        trivial = set(names) <= {"Variable", "RawVariable"}
        ok = "Deallocate" in cs and (trivial or ("Dispose" in cs and cs.index("Dispose") < cs.index("Deallocate")))
        r.ob(cl.q, "case " + ",".join(names), ok, "calls %s" % cs, cl.loc(stmts[0]))
    rules.append(r)

    # ---------------- O13 constructors of the tagged unions: no assignment into an owning member over raw bits
    r = Rule("O13-rawinit", "a constructor assigns an owning union member only over the zero state its default initialiser left", floor=4)
    for cls, owning_members in (("Qentem::QExpression", {"SubExpressions"}), ("Qentem::Value", {"object_", "array_", "string_"})):
        union_members = set()
        for rec in m.records:
            if rec.get("union") and rec.get("q", "").startswith(cls + "::") and not rec.get("spec"):
                union_members |= set(fl["n"] for fl in rec.get("fields", []))
        if not (owning_members <= union_members):
            r.broke("%s: union members %s not found (have %s)" % (cls, sorted(owning_members), sorted(union_members)))
            continue
        for f in m.functions:
            if f.inst or f.cls != cls or f.kind not in ("ctor", "copyctor", "movector") or not f.cfg:
                continue
            assigned = []
            for x in f.walk():
                n = f.nodes[x]
                if n["k"] in ("BinaryOperator", "CXXOperatorCallExpr") and n.get("op") == "=":
                    lhs = f.call_args(x)[0] if n["k"] == "CXXOperatorCallExpr" else n["ch"][0]
                    ln = f.nodes[f.strip(lhs)]
                    if ln["k"] in ("MemberExpr", "CXXDependentScopeMemberExpr") and ln.get("n") in owning_members:
                        base = ln.get("ch", [])
                        b0 = f.nodes[f.strip(base[0])] if base else {}
                        if not base or b0.get("k") == "CXXThisExpr" or (b0.get("k") == "MemberExpr" and b0.get("anon")):
                            assigned.append((x, ln["n"]))
            if not assigned:
                continue
            ctx.note_fn(f)
            raw = [i_["field"] for i_ in (f.d.get("inits") or []) if i_.get("written") and i_.get("field") in union_members]
            for (x, name) in assigned:
                ok = not [w for w in raw if w != name]
                r.ob(f.sig, "%s = ..." % name, ok, "the union holds %s when `%s` is assigned" % (
                    "the zero state of its default initialiser" if ok else "the raw bits written by the initialiser of `%s`: the assignment disposes and releases them as if they were this object's own block" % raw[0], name), f.loc(x))
    # ... and in an assignment operator the union may hold ANY member: the owning one is assigned only where the object was found
    # to hold it already (a test of the old kind, taken before the kind is overwritten, or a flag saved from it); otherwise it has
    # to be constructed in place (Memory::Initialize) -- assigning it would release the bits of a number as if they were a block
    for f in m.functions:
        if f.inst or f.cls != "Qentem::QExpression" or f.name != "operator=" or not f.cfg:
            continue
        par = f.parents()
        flags = set()
        for x in astq.nodes_of(f, "DeclStmt"):
            for d in f.nodes[x]["decls"]:
                if d.get("tk") == "bool" and d.get("init", -1) >= 0 and "SubOperation" in f.text(d["init"]) and "src" not in f.text(d["init"]):
                    flags.add(d["n"])
        for x in f.walk():
            n = f.nodes[x]
            if n["k"] in ("BinaryOperator", "CXXOperatorCallExpr") and n.get("op") == "=":
                lhs = f.call_args(x)[0] if n["k"] == "CXXOperatorCallExpr" else n["ch"][0]
                ln = f.nodes[f.strip(lhs)]
                if ln["k"] in ("MemberExpr", "CXXDependentScopeMemberExpr") and ln.get("n") == "SubExpressions" and "src" not in f.text(lhs):
                    ctx.note_fn(f)
                    guarded = False
                    up, child = par.get(x), x
                    while up is not None:
                        un = f.nodes[up]
                        if un["k"] == "IfStmt" and child == un.get("then"):
                            ct = f.text(un["cond"])
                            if any(fl in ct for fl in flags) or ("SubOperation" in ct and "src" not in ct):
                                guarded = True
                        child = up
                        up = par.get(up)
                    r.ob(f.sig, "SubExpressions = ...", guarded, "assigned only where this object was found to hold a list already" if guarded else
                         "the list member is assigned whatever the union holds: over a number or a variable the assignment releases those bits as if they were this object's block", f.loc(x))
    rules.append(r)

    # ---------------- O2e containers dispose their elements
    r = Rule("O2e-dispose", "container destructors/Reset/Clear dispose the elements before releasing the block", floor=5)
    for cls, names in (("Qentem::Array", ["~Array", "Reset", "Clear"]), ("Qentem::HashTable", ["~HashTable", "Reset", "Clear"])):
        for f in m.functions:
            if f.inst or f.cls != cls or f.name.split("<")[0] not in names or not f.cfg:
                continue
            ctx.note_fn(f)
            cs = [(c, f.call_simple_name(c)) for c in astq.calls(f)]
            disp = [c for c, nm in cs if nm == "Dispose"]
            deal = [c for c, nm in cs if nm == "Deallocate"]
            ok = bool(disp) and (not deal or disp[0] < deal[0])
            r.ob(f.sig, "dispose elements", ok, "Dispose %s Deallocate" % ("precedes" if ok and deal else ("present; no" if ok else "MISSING before")), "%s:%d" % (f.file.split("/Include/")[-1], f.line))
    rules.append(r)

    # ---------------- O14 what may be disposed in place
    from rules.common import rule_dispose_target, rule_dispose_order, rule_redispose
    rules.append(rule_dispose_target(ctx, m))
    rules.append(rule_dispose_order(ctx, m))
    rules.append(rule_redispose(ctx, m))
    from rules.common import rule_none_owns_nothing
    rules.append(rule_none_owns_nothing(ctx, m))
    from rules.common import rule_pointer_value_makers
    rules.append(rule_pointer_value_makers(ctx, m))
    from rules.common import rule_out_alias
    rules.append(rule_out_alias(ctx, m))

    # ---------------- O10 destroyed member
    r = Rule("O10-destroyed", "a member destroyed in place is not used again before it is re-initialised", floor=3)
    for f in m.functions:
        if f.inst or not f.cfg:
            continue
        for c in astq.calls(f, "Dispose"):
            a = f.call_args(c)
            if len(a) != 1:
                continue
            an = f.nodes[f.strip(a[0])]
            if not (an["k"] == "UnaryOperator" and an["op"] == "&"):
                continue
            mem = f.text(an["ch"][0])
            mn = f.nodes[f.strip(an["ch"][0])]
            if mn["k"] not in ("MemberExpr", "CXXDependentScopeMemberExpr"):
                continue
            # only members of *this* object (members of other objects are the merge-by-move rule's concern)
            base = mn.get("ch", [])
            if base and f.nodes[f.strip(base[0])]["k"] not in ("CXXThisExpr", "MemberExpr"):
                continue
            ctx.note_fn(f)
            # later uses of the same member on some path: CFG reachability from the Dispose call
            from qlib import dataflow
            cb = dataflow.block_of(f, c)
            uses = []
            for i in f.walk():
                n = f.nodes[i]
                if i != f.strip(an["ch"][0]) and n["k"] in ("MemberExpr", "CXXDependentScopeMemberExpr") and f.text(i) == mem and i > c:
                    par = f.parents().get(i)
                    pn = f.nodes[par] if par is not None else {}
                    reinit = pn.get("k") == "UnaryOperator" and pn.get("op") == "&" and f.nodes[f.parents().get(par, par)].get("k") in ("CallExpr",) and \
                        f.call_simple_name(f.parents().get(par)) in ("Initialize", "InitializeValues")
                    if not reinit:
                        ub = dataflow.block_of(f, i)
                        if ub is not None and cb is not None and (ub == cb or ub in dataflow.reachable(f, start=cb)):
                            uses.append(i)
            r.ob(f.sig, "Dispose(&%s)" % mem, not uses,
                 "after its destructor ran the member is %s" % ("not touched again" if not uses else
                 "used at %s (`%s`): the operation runs on a destroyed object -- its storage pointer was already released" % (f.loc(uses[0]), f.text(f.parents().get(uses[0], uses[0]))[:70])),
                 f.loc(c))
    rules.append(r)

    # ---------------- O8 Make*Tag on fresh records
    r = Rule("O8-fresh", "Make*Tag() is only invoked on a record that was just inserted empty", floor=7)
    for f in m.functions:
        if f.inst:
            continue
        for c in astq.calls(f):
            nm = f.call_simple_name(c) or ""
            if nm.startswith("Make") and nm.endswith("Tag") and f.cls != "Qentem::Tags::TagBit":
                rc = f.call_receiver(c)
                t = f.text(rc) if rc is not None else ""
                ok = t.replace(" ", "") in ("storage->Insert(TagBit{})", "(storage->Insert(TagBit{}))") or "Insert(TagBit{})" in t
                r.ob(f.q, f.text(c)[:60], ok, "receiver `%s`" % t, f.loc(c))
    rules.append(r)

    # ---------------- typestate of Value (shared)
    from rules import C12
    for r12 in C12.run(ctx):
        if r12.rid == "TS-sync":
            rules.append(r12)
    return rules
