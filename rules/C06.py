"""C06 -- every RFC 8259 document parses to the value it denotes (table / dispatch clauses)."""
from qlib import astq, tab
from qlib.model import AnalysisBroken
from qlib.report import Rule
from rules import jsontab
from rules.C20 import rule_surrogate, rule_utf
from rules.C07 import rule_scratch

META = {
    "explanation": "E-TAB against RFC 8259: the escape-letter map of UnEscape equals section 7 (and only the "
                   "non-standard \\U is extra); the whitespace set of TrimLeft equals section 2; keyword literals spell "
                   "true/false/null in all five character specialisations and the dispatch letters are their first "
                   "letters; the structural characters ({ } [ ] : , \") have their RFC values; parseValue dispatches on "
                   "exactly { [ \" t f n and sends the rest to the number scanner, each arm calling the routine / "
                   "returning the kind that belongs to it; surrogate predicate value-set and pairing arithmetic "
                   "(shared with C20); duplicate keys replace in place. Not decided: denotation of every document, "
                   "numeric accuracy.",
    "not_decided": "structure/order equality for all documents; doubles within 1 ulp",
    "assumptions": [],
}
META["explanation"] += " " + '(TB-casepair) wherever the number scanner tests one spelling of the exponent marker (e / E) it tests the other in the same arm or condition.'
META["explanation"] += " " + '(PR-expmarker) abstract paths from every switch arm that finds an exponent marker under the cursor (domain: value set of that unit, cursor-in-bounds, literal booleans): a number is returned only after the exponent scanner was called. (PR-accumulate) a recognised digit is accumulated unconditionally or under a bound on the accumulator only. (SIGN-unit) see C02.'

STRUCT = {"QuoteChar": '"', "CommaChar": ",", "ColonChar": ":", "SCurlyChar": "{", "ECurlyChar": "}",
          "SSquareChar": "[", "ESquareChar": "]", "SlashChar": "/", "BSlashChar": "\\",
          "BackSpaceControlChar": "\b", "TabControlChar": "\t", "LineControlChar": "\n", "FormfeedControlChar": "\f",
          "CarriageControlChar": "\r", "B_Char": "b", "T_Char": "t", "N_Char": "n", "F_Char": "f", "R_Char": "r",
          "U_Char": "u"}


META["explanation"] += " " + "(PR-scratch, shared with C07) every path of JSONParser::Parse clears the caller's scratch stream before parseValue runs."

META["explanation"] += " " + 'Taken over unchanged from other modules because a seeded change to this property was reported by them (rules.common.shared): PR-unescape/PR-quote/KW-exhaust/HEX-four/PR-lowsurr from C07; UNS-shift/SB-roundcarry/TB-bounds from C09; SB-bytes from C14.'

def _run_own(ctx):
    m = ctx.pattern()
    rules = []

    # ---- structural characters
    r = Rule("TB-chars", "JSONotation_T structural/escape characters have their RFC 8259 values", floor=18)
    mem = tab.members(m, "Qentem::JSONUtils::JSONotation_T")
    for targs, mm in mem.items():
        for name, ch in STRUCT.items():
            v = mm.get(name)
            if v is None:
                r.ob("Qentem::JSONUtils::JSONotation_T", name, False, "constant vanished", "")
                continue
            val = tab.var_int(m, v)
            r.ob("Qentem::JSONUtils::JSONotation_T", name, val == ord(ch), "value %r, RFC %r" % (val, ord(ch)), tab.rel(v))
    rules.append(r)

    # ---- escapes
    r = Rule("TB-escapes", "UnEscape maps exactly the RFC 8259 escape letters to their characters", floor=9)
    ue, mp, hexlabels, where = jsontab.unescape_map(m)
    ctx.note_fn(ue)
    for letter, want in sorted(jsontab.RFC8259_ESCAPES.items()):
        got = mp.get(letter)
        r.ob(ue.q, "\\%s" % chr(letter), got == want, "decodes to %r, RFC %#x" % (got, want), where.get(letter, ""))
    r.ob(ue.q, "\\u", ord("u") in hexlabels, "\\u leads to the four-hex-digit path", where.get(ord("u"), ""))
    extra = [x for x in list(mp) + hexlabels if x not in jsontab.RFC8259_ESCAPES and x not in (ord("u"), ord("U"))]
    for x in extra:
        r.ob(ue.q, "\\%s" % (chr(x) if x is not None else "?"), False, "escape letter outside RFC 8259 is accepted", where.get(x, ""))
    if ord("U") in hexlabels:
        r.notes.append("non-standard \\U accepted as an alias of \\u (extension, reported as a note)")
    rules.append(r)

    # ---- whitespace
    r = Rule("TB-ws", "TrimLeft skips exactly space, tab, LF, CR", floor=4)
    tl = m.fn("Qentem::StringUtils::TrimLeft")
    ctx.note_fn(tl)
    sws = astq.nodes_of(tl, "SwitchStmt")
    skipped = set()
    anchor = None
    if len(sws) == 1:
        anchor = sws[0]
        for labels, stmts in astq.switch_arms(tl, sws[0]):
            if any(l[0] == "default" for l in labels):
                rets = [x for s in stmts for x in astq.returns(tl, s)]
                r.ob(tl.q, "default", bool(rets), "any other unit stops the scan", tl.loc(stmts[0]) if stmts else "", nontrivial=False)
                continue
            stops = any(astq.returns(tl, s) for s in stmts)
            for l in labels:
                v = jsontab.label_value(m, tl, l)
                if not stops:
                    skipped.add(v)
    elif not sws:
        # if-form: the scan stops (returns) under a condition over the current unit; the skipped set is the exact complement
        # of that condition's value-set
        from rules.C20 import value_set, Unrecognised
        loops_ = astq.nodes_of(tl, ("WhileStmt", "ForStmt", "DoStmt"))
        stop_ifs = [i for i in astq.nodes_of(tl, "IfStmt", loops_[0] if loops_ else None) if astq.returns(tl, tl.nodes[i]["then"]) and tl.nodes[i]["else"] < 0]
        units = [d for st_ in astq.nodes_of(tl, "DeclStmt") for d in tl.nodes[st_]["decls"] if d.get("init", -1) >= 0 and tl.nodes[tl.strip_casts(d["init"])]["k"] == "ArraySubscriptExpr"]
        if len(stop_ifs) != 1 or len(units) != 1:
            raise AnalysisBroken("TrimLeft: neither one switch nor one stop test over a local copy of the current unit")
        anchor = stop_ifs[0]

        def res(fn_, x):
            try:
                return m.resolve_dep_const(fn_.text(fn_.strip_casts(x)))
            except Exception:
                return None
        try:
            stop = value_set(tl, tl.nodes[stop_ifs[0]]["cond"], units[0]["d"], width=21, resolve=res)
        except Unrecognised as e:
            raise AnalysisBroken("TrimLeft: stop condition outside the value-set algebra: %s" % e)
        pos = 0
        for (a_, b_) in stop:
            for v in range(pos, a_):
                skipped.add(v)
                if len(skipped) > 64:
                    break
            pos = b_ + 1
        if pos <= 0x10FFFF:
            skipped |= set(range(pos, min(pos + 64, 0x110000)))
        r.ob(tl.q, "stop test", True, "any unit outside the skipped set stops the scan (value-set of `%s`)" % tl.text(tl.nodes[stop_ifs[0]]["cond"])[:80], tl.loc(stop_ifs[0]), nontrivial=False)
    else:
        raise AnalysisBroken("TrimLeft: more than one switch")
    for w in sorted(jsontab.RFC8259_WS):
        r.ob(tl.q, "ws %#x" % w, w in skipped, "RFC whitespace must be skipped", tl.loc(anchor))
    for x in sorted(skipped - jsontab.RFC8259_WS)[:4]:
        r.ob(tl.q, "ws %r" % x, False, "unit outside the RFC whitespace set is skipped", tl.loc(anchor))
    rules.append(r)

    # ---- keywords
    r = Rule("TB-keywords", "keyword literals spell true/false/null in every specialisation", floor=15)
    kw = tab.members(m, "Qentem::JSONotationStrings")
    for targs, mm in sorted(kw.items()):
        for name, text in (("TrueString", "true"), ("FalseString", "false"), ("NullString", "null")):
            v = mm.get(name)
            u = tab.var_units(m, v) if v else None
            r.ob("Qentem::JSONotationStrings" + targs, name, u == [ord(c) for c in text],
                 "literal %r" % (tab.ascii_text(u) if isinstance(u, list) else u), tab.rel(v) if v else "")
    for targs, mm in mem.items():
        for name, n in (("TrueStringLength", 4), ("FalseStringLength", 5), ("NullStringLength", 4)):
            v = mm.get(name)
            r.ob("Qentem::JSONUtils::JSONotation_T", name, v is not None and tab.var_int(m, v) == n,
                 "declared length %s, literal length %d" % (tab.var_int(m, v) if v else None, n), tab.rel(v) if v else "")
    rules.append(r)

    # ---- value start dispatch
    r = Rule("X-valuestart", "parseValue dispatches on { [ \" t f n to the matching routine/kind; everything else is a number", floor=7)
    pv = m.fn("Qentem::JSON::JSONParser::parseValue")
    ctx.note_fn(pv)
    sws = astq.nodes_of(pv, "SwitchStmt")
    if not sws:
        raise AnalysisBroken("parseValue: dispatch switch not found")
    want = {ord("{"): ("call", "parseObject"), ord("["): ("call", "parseArray"), ord('"'): ("call", "UnEscape"),
            ord("t"): ("kw", "TrueString", "True"), ord("f"): ("kw", "FalseString", "False"),
            ord("n"): ("kw", "NullString", "Null")}
    seen = set()
    for labels, stmts in astq.switch_arms(pv, sws[0]):
        if any(l[0] == "default" for l in labels):
            ok = any(astq.calls(pv, "StringToNumber", s) for s in stmts)
            r.ob(pv.q, "default", ok, "every other first unit goes to the number scanner", pv.loc(stmts[0]))
            continue
        for l in labels:
            v = jsontab.label_value(m, pv, l)
            seen.add(v)
            w = want.get(v)
            if w is None:
                r.ob(pv.q, "case %r" % v, False, "first unit outside the RFC value starts has its own arm", pv.loc(stmts[0]))
                continue
            if w[0] == "call":
                ok = any(astq.calls(pv, w[1], s) for s in stmts)
                r.ob(pv.q, "case '%s'" % chr(v), ok, "arm calls %s" % w[1], pv.loc(stmts[0]))
            else:
                txt = " ".join(pv.text(s) for s in stmts)
                refs_lit = any(pv.nodes[i]["k"] in ("DependentScopeDeclRefExpr", "CXXDependentScopeMemberExpr") and
                               pv.nodes[i].get("n") == w[1] for s in stmts for i in pv.walk(s))
                ret_kind = any(pv.nodes[i]["k"] == "DeclRefExpr" and pv.nodes[i].get("q") == "Qentem::ValueType::" + w[2]
                               for s in stmts for rr in astq.returns(pv, s) for i in pv.walk(rr))
                others = any(pv.nodes[i]["k"] == "DeclRefExpr" and (pv.nodes[i].get("q") or "").startswith("Qentem::ValueType::") and
                             pv.nodes[i].get("q") != "Qentem::ValueType::" + w[2] for s in stmts for i in pv.walk(s))
                r.ob(pv.q, "case '%s'" % chr(v), refs_lit and ret_kind and not others,
                     "arm matches %s and returns ValueType::%s only" % (w[1], w[2]), pv.loc(stmts[0]))
    for v in want:
        if v not in seen:
            r.ob(pv.q, "case '%s'" % chr(v), False, "RFC value start has no arm", pv.loc(sws[0]))
    rules.append(r)

    # ---- closing brackets and separators in the member loops
    r = Rule("TB-brackets", "parseObject/parseArray test their own closing bracket, ',' and ':'", floor=5)
    for fname, close in (("parseObject", "ECurlyChar"), ("parseArray", "ESquareChar")):
        f = m.fn("Qentem::JSON::JSONParser::" + fname)
        names = [f.nodes[i].get("n") for i in f.walk() if f.nodes[i]["k"] in ("DependentScopeDeclRefExpr", "CXXDependentScopeMemberExpr")]
        other = "ESquareChar" if close == "ECurlyChar" else "ECurlyChar"
        r.ob(f.q, close, names.count(close) >= 2 and other not in names, "closing bracket tested is %s (x%d), never %s" % (close, names.count(close), other), "Include/JSON.hpp:%d" % f.line)
        r.ob(f.q, "CommaChar", "CommaChar" in names, "members are separated by ','", "Include/JSON.hpp:%d" % f.line, nontrivial=False)
        if fname == "parseObject":
            r.ob(f.q, "ColonChar", "ColonChar" in names and "QuoteChar" in names, "key and value are separated by ':' and keys start with '\"'", "Include/JSON.hpp:%d" % f.line, nontrivial=False)
    rules.append(r)

    # ---- duplicate keys
    r = Rule("PR-dupkey", "HArray::Insert on an existing key assigns the value in place and does not insert", floor=1)
    ins = [f for f in m.fns("Qentem::HArray::Insert") if len(f.params) == 2 and f.params[0]["rref"] and f.params[1]["rref"]]
    if len(ins) != 1:
        raise AnalysisBroken("HArray::Insert(Key&&, Value&&) not found")
    f = ins[0]
    ctx.note_fn(f)
    # the found-key path: an assignment of the `value` parameter to the found item's Value that is not part of the
    # not-found branch (the branch that calls insert())
    vparam = f.params[1]["n"]
    assigns = []
    for x in f.walk():
        n = f.nodes[x]
        if n["k"] in ("BinaryOperator", "CXXOperatorCallExpr") and n.get("op") == "=":
            lhs = n["ch"][0] if n["k"] == "BinaryOperator" else f.call_args(x)[0]
            rhs = n["ch"][1] if n["k"] == "BinaryOperator" else f.call_args(x)[1]
            if f.text(lhs).endswith("Value") and astq.refs_decl(f, rhs, vparam):
                assigns.append(x)
    ins_calls = astq.calls(f, "insert")
    finds = astq.calls(f, "find")
    in_insert_branch = []
    for a in assigns:
        enc = astq.enclosing(f, a, ("IfStmt",))
        while enc is not None:
            n = f.nodes[enc]
            branch = n["then"] if a in set(f.walk(n["then"])) else n["else"]
            if branch is not None and branch >= 0 and any(c in set(f.walk(branch)) for c in ins_calls):
                in_insert_branch.append(a)
            enc = astq.enclosing(f, enc, ("IfStmt",))
    replace = [a for a in assigns if a not in in_insert_branch]
    r.ob(f.q, "found-key path", bool(finds) and bool(ins_calls) and len(replace) >= 1,
         "an existing key keeps its slot and gets the new value: %s" % ([f.text(a) for a in replace] or "NO assignment of `%s` to the found item's Value outside the insert branch" % vparam),
         f.loc(replace[0]) if replace else "Include/HArray.hpp:%d" % f.line)
    rules.append(r)

    # ---- surrogates (shared with C20) and the encoders
    rules += rule_surrogate(ctx, m)
    rules.append(rule_utf(ctx, m))
    from rules.common import rule_case_pairs
    rules.append(rule_case_pairs(ctx, m))
    from rules.common import rule_exponent_marker
    rules.append(rule_exponent_marker(ctx, m))
    from rules.common import rule_sign_unit
    rules.append(rule_sign_unit(ctx, m, ['JSON.hpp', 'JSONUtils.hpp', 'Digit.hpp', 'StringUtils.hpp', 'Unicode.hpp']))
    from rules.common import rule_accumulate
    rules.append(rule_accumulate(ctx, m))
    rules.append(rule_scratch(ctx, m))
    return rules


def run(ctx):
    rules_ = list(_run_own(ctx) or [])
    from rules.common import shared
    have = set(r_.rid for r_ in rules_)
    rules_ += [r_ for r_ in shared(ctx, 'C07', ['PR-unescape', 'PR-quote', 'KW-exhaust', 'HEX-four', 'PR-lowsurr']) if r_.rid not in have]
    rules_ += [r_ for r_ in shared(ctx, 'C09', ['UNS-shift', 'SB-roundcarry', 'TB-bounds']) if r_.rid not in have]
    rules_ += [r_ for r_ in shared(ctx, 'C14', ['SB-bytes']) if r_.rid not in have]
    return rules_
