"""C05 -- parsing any byte string as JSON is memory-safe and terminates (structural clauses)."""
from qlib.report import Rule
from qlib.zonerules import run_zone
from tables.contracts import CONTRACTS

META = {
    "explanation": "E-ZONE (difference-bound abstract interpretation over the clang CFG of the uninstantiated "
                   "templates, so for every Char_T): every raw read content[e] in the JSON parser, UnEscape and the "
                   "number scanner is proven 0 <= e < length on every path; every (pointer,length) argument fits the "
                   "caller's bound; entry requirements of callees are proven at call sites; by-reference cursor "
                   "guarantees are proven on every exit. Decides memory-safety clauses for all inputs at once; does not "
                   "decide write-side safety of containers (C14/C16 rules) or stack use beyond the frame budget.",
    "not_decided": "write-side safety of the produced tree (container rules), arithmetic inside number conversion",
    "assumptions": [
        "cursor + small constant does not overflow SizeT (lengths are 32-bit and bounded by allocations)",
        "callers of the public entry points pass a length not larger than the buffer",
        "distinct by-reference parameters do not alias",
    ],
}
META["explanation"] += " " + "(PROG) every cursor-controlled loop of the parser, UnEscape, the string utilities and the number scanner makes progress: E-ZONE with ghost copies of cursor and bound taken at the start of each iteration proves, on every CFG edge back to the loop head (back edge and every continue), that bound - cursor dropped by at least one; a path on which provably neither changed is a violation; loops outside the difference-bound domain (parseObject/parseArray member loops, whose progress is a callee's, flag-driven loops, divisions) are listed in the evidence as not decided."
META["explanation"] += " " + '(O14-target, shared with C16) the containers the parser fills never run a destructor on a parameter, a local or an ordinary member in place.'
META["explanation"] += " " + 'E-ZONE gives a constant-extent array variable (a local or static lookup table) its own bound: 0 <= index < extent must be proven at every subscript.'

KEYS = [
    "Qentem::JSON::JSONParser::Parse", "Qentem::JSON::JSONParser::parseValue",
    "Qentem::JSON::JSONParser::parseObject", "Qentem::JSON::JSONParser::parseArray",
    "Qentem::JSONUtils::UnEscape", "Qentem::StringUtils::TrimLeft",
    "Qentem::Digit::StringToNumber/4", "Qentem::Digit::stringToNumber", "Qentem::Digit::parseExponent",
    "Qentem::Digit::HexStringToNumber/3", "Qentem::Digit::HexStringToNumber/2",
]


META["explanation"] += " " + '(ZB-ens) a callee contract may state what the result is bounded by (UnEscape returns at most the length it was given); the bound is verified at every return of the callee and kept at call sites beside the two-variable facts (term <= linear form), so str[len - 1] after len = UnEscape(str, length - offset, stream) is proven in range.'

META["explanation"] += " " + '(REC-bound, shared with C01) call-graph rule: every cycle among the text-taking functions of JSON.hpp (parseValue -> parseArray/parseObject -> parseValue) is cut by a call that passes depth + k and is dominated by the true edge of depth < CONST, so the stack depth is not chosen by the text.'

META["explanation"] += " " + 'Taken over unchanged from other modules because a seeded change to this property was reported by them (rules.common.shared): TB-hash/HC-confirm from C13.'

def _run_own(ctx):
    m = ctx.pattern()
    rules = {
        "ZB-read": Rule("ZB-read", "every raw read of the input buffer is proven in [0,length) on every path", floor=20),
        "ZB-call": Rule("ZB-call", "(pointer,length) arguments stay inside the caller's buffer", floor=12),
        "ZB-req": Rule("ZB-req", "entry requirements of callees proven at each call site (none declared today)", floor=0),
        "ZB-ens": Rule("ZB-ens", "by-reference cursors never move backwards / stay <= bound (proven on every exit)", floor=6),
    }
    run_zone(ctx, m, CONTRACTS, KEYS, rules)
    from rules.borrow import rule_borrow
    out = list(rules.values())
    out.append(rule_borrow(ctx, m, files=["JSON.hpp", "JSONUtils.hpp"]))
    from rules.progress import rule_progress
    out.append(rule_progress(ctx, m, CONTRACTS, ["JSON.hpp", "JSONUtils.hpp", "StringUtils.hpp", "Digit.hpp"], floor=25))
    # "no write outside owned memory" includes the parser's own storage: the containers it fills never destroy an object twice
    from rules.common import rule_dispose_target
    out.append(rule_dispose_target(ctx, m, files=["HArray.hpp", "HashTable.hpp", "Array.hpp", "Value.hpp", "String.hpp", "JSON.hpp"]))
    # "terminates" includes the machine stack: one level of recursion per level of nesting needs a bound
    from rules.common import rule_recursion_bound
    out.append(rule_recursion_bound(ctx, m, "JSON.hpp"))
    return out


def run(ctx):
    rules_ = list(_run_own(ctx) or [])
    from rules.common import shared
    have = set(r_.rid for r_ in rules_)
    rules_ += [r_ for r_ in shared(ctx, 'C13', ['TB-hash', 'HC-confirm']) if r_.rid not in have]
    return rules_
