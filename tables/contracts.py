"""E-ZONE contract table (assume/guarantee), written after reading the code.

buffers : pointer parameter (or field 'f:name') -> exclusive bound (parameter name; '@entry' = value on entry)
requires: facts on parameters assumed inside and proven at every call site in the library  (a - b <= c)
ensures : for by-reference cursors: ('inc',) never decreases; ('le', B) if <= B on entry then <= B on exit.
          Ensures are PROVEN inside the function on every exit and assumed after calls.
onepast : buffers whose unit at index == bound is readable (caller stopped ON a delimiter)
"""
from qlib.zone import Contract as C

Q = "Qentem::"

CONTRACTS = {
    # ---- StringUtils
    Q + "StringUtils::TrimLeft": C(buffers={"str": "end_offset"},
                                   ensures={"offset": [("inc",), ("le", "end_offset")]},
                                   notes="used by JSON and expressions"),
    Q + "StringUtils::TrimRight": C(buffers={"str": "end_offset@entry"}, ensures={"end_offset": [("dec",)]},
                                    notes="descending scan, lower guard end_offset > offset"),
    Q + "StringUtils::IsEqual": C(buffers={"left": "length", "right": "length"}),
    Q + "StringUtils::IsLess": C(buffers={"left": "left_length", "right": "right_length"}),
    Q + "StringUtils::IsGreater": C(buffers={"left": "left_length", "right": "right_length"}),
    Q + "StringUtils::Hash": C(buffers={"key": "length@entry"}, notes="length is decremented inside; bound is the entry value"),
    Q + "StringUtils::EscapeHTMLSpecialChars": C(buffers={"str": "length"}),
    # ---- Digit
    Q + "Digit::HexStringToNumber/3": C(buffers={"value": "end_offset"},
                                        ensures={"offset": [("inc",), ("le", "end_offset")]}),
    Q + "Digit::HexStringToNumber/2": C(buffers={"value": "length"}),
    Q + "Digit::FastStringToNumber": C(buffers={"content": "length"}),
    Q + "Digit::StringToNumber/4": C(buffers={"content": "end_offset"}, ensures={"offset": [("inc",)]}),
    Q + "Digit::StringToNumber/3": C(buffers={"content": "length"}),
    Q + "Digit::stringToNumber": C(buffers={"content": "end_offset"}, ensures={"offset": [("inc",)]},
                                   notes="offset <= end_offset on exit is true but needs a relation between `digit` and "
                                         "the cursor (path-sensitive); not claimed, no caller relies on it"),
    Q + "Digit::parseExponent": C(buffers={"content": "end_offset"},
                                  ensures={"offset": [("inc",), ("le", "end_offset")]}),
    # ---- JSON
    Q + "JSONUtils::UnEscape": C(buffers={"content": "length"}, ret=[("le", "length")]),
    # ---- Finder / Template
    Q + "Finder::Next": C(buffers={"f:content_": "f:length_"}, invariants=[("f:offset_", "f:length_", 0)],
                          foreign={"word": "static word table, indices decided by TB-words",
                                   "group_list": "static group table, indices decided by TB-words"},
                          notes="class invariant offset_ <= length_ (SetOffset arguments are checked at call sites)"),
    Q + "TemplateCore::parse": C(buffers={"content": "length"},
                                 requires=[("finder.GetOffset()", "length", 0)],  # fresh finder: offset_ == 0
                                 objects={"finder": {
                                     # justified by FIND-next on Finder::Next: (a) offset_ <= length_ is preserved,
                                     # (b) match_ != 0 on exit implies offset_ <= length_ whatever the entry state
                                     "Next": {"havoc": ["GetOffset()", "GetMatch()"],
                                              "le": [("GetOffset()", "length")],
                                              "implies": [("GetMatch()", "GetOffset()", "length")]},
                                     "SetOffset": {"set": ("GetOffset()", 0)}}},
                                 foreign={"TagPatterns::IfPrefix": "constant index 0 into a pattern literal (TB-patterns)"}),
    Q + "TemplateCore::parseLoopAttributes": C(buffers={"content": "end_offset"}, onepast={"content"},
                                               notes="end_offset is the position of the closing '>' found by the caller: "
                                                     "the unit at end_offset is readable (proven at the call site)"),
    Q + "TemplateCore::parseIfCase": C(buffers={"content": "end_offset"},
                                       ensures={"offset": [("inc",)], "case_offset": [("le", "end_offset")],
                                                "case_end_offset": [("le", "end_offset")]}),
    Q + "TemplateCore::parseExpressions": C(buffers={"content": "end_offset"}),
    Q + "TemplateCore::parseValue": C(buffers={"content": "end_offset@entry"}),
    Q + "TemplateCore::getOperation": C(buffers={"content": "end_offset"},
                                        ensures={"offset": [("inc",), ("le", "end_offset")]}),
    Q + "TemplateCore::isExpression": C(buffers={"content": "offset@entry"}, notes="descending scan guarded by offset != 0"),
    Q + "TemplateCore::getValue": C(buffers={"id": "length"}, onepast={"id"},
                                    foreign={"loops_items_->Storage()": "loop-item index: IDX-ensure rule"},
                                    notes="id = content_ + variable.Offset, length = variable.Length; the unit at "
                                          "id[length] is readable because every variable reference is followed by '}' "
                                          "or a quote inside the template buffer (tag grammar; recorded assumption)"),
    Q + "TemplateCore::renderSuperVariable": C(buffers={"content": "length"},
                                               notes="phrase scan over the value's string (content,length set by SetCharAndLength)"),
    Q + "JSONUtils::Escape": C(buffers={"content": "length"}),
    Q + "JSON::JSONParser::Parse": C(buffers={"content": "length"}),
    Q + "JSON::JSONParser::parseValue": C(buffers={"content": "length"},
                                          literals=["JSONotation::TrueString", "JSONotation::FalseString",
                                                    "JSONotation::NullString"],
                                          notes="no entry requirement: the dispatch on content[offset] must guard itself"),
    Q + "JSON::JSONParser::parseObject": C(buffers={"content": "length"}),
    Q + "JSON::JSONParser::parseArray": C(buffers={"content": "length"}),
}


def lookup(q, nparams=None):
    """contract for a qualified name; overloads are keyed 'name/<nparams>'"""
    if nparams is not None and (q + "/%d" % nparams) in CONTRACTS:
        return CONTRACTS[q + "/%d" % nparams]
    return CONTRACTS.get(q)
