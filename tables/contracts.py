"""E-ZONE contract table (assume/guarantee), written after reading the code.

buffers : pointer parameter (or field 'f:name') -> exclusive bound (parameter name; '@entry' = value on entry)
requires: facts on parameters assumed inside and proven at every call site in the library  (a - b <= c)
ensures : for by-reference cursors: ('inc',) never decreases; ('le', B) if <= B on entry then <= B on exit.
          Ensures are PROVEN inside the function on every exit and assumed after calls.
onepast : buffers whose unit at index == bound is readable (caller stopped ON a delimiter)
"""
from qlib.zone import Contract as C

Q = "Qentem::"

CONTRACTS = {
    # ---- StringUtils
    Q + "StringUtils::TrimLeft": C(buffers={"str": "end_offset"},
                                   ensures={"offset": [("inc",), ("le", "end_offset")]},
                                   notes="used by JSON and expressions"),
    Q + "StringUtils::TrimRight": C(buffers={"str": "end_offset@entry"},
                                    notes="descending scan, lower guard end_offset > offset"),
    Q + "StringUtils::IsEqual": C(buffers={"left": "length", "right": "length"}),
    Q + "StringUtils::IsLess": C(buffers={"left": "left_length", "right": "right_length"}),
    Q + "StringUtils::IsGreater": C(buffers={"left": "left_length", "right": "right_length"}),
    Q + "StringUtils::Hash": C(buffers={"key": "length@entry"}, notes="length is decremented inside; bound is the entry value"),
    Q + "StringUtils::EscapeHTMLSpecialChars": C(buffers={"str": "length"}),
    # ---- Digit
    Q + "Digit::HexStringToNumber/3": C(buffers={"value": "end_offset"},
                                        ensures={"offset": [("inc",), ("le", "end_offset")]}),
    Q + "Digit::HexStringToNumber/2": C(buffers={"value": "length"}),
    Q + "Digit::FastStringToNumber": C(buffers={"content": "length"}),
    Q + "Digit::StringToNumber/4": C(buffers={"content": "end_offset"}, ensures={"offset": [("inc",)]}),
    Q + "Digit::StringToNumber/3": C(buffers={"content": "length"}),
    Q + "Digit::stringToNumber": C(buffers={"content": "end_offset"}, ensures={"offset": [("inc",)]},
                                   notes="offset <= end_offset on exit is true but needs a relation between `digit` and "
                                         "the cursor (path-sensitive); not claimed, no caller relies on it"),
    Q + "Digit::parseExponent": C(buffers={"content": "end_offset"},
                                  ensures={"offset": [("inc",), ("le", "end_offset")]}),
    # ---- JSON
    Q + "JSONUtils::UnEscape": C(buffers={"content": "length"}),
    Q + "JSONUtils::Escape": C(buffers={"content": "length"}),
    Q + "JSON::JSONParser::Parse": C(buffers={"content": "length"}),
    Q + "JSON::JSONParser::parseValue": C(buffers={"content": "length"},
                                          literals=["JSONotation::TrueString", "JSONotation::FalseString",
                                                    "JSONotation::NullString"],
                                          notes="no entry requirement: the dispatch on content[offset] must guard itself"),
    Q + "JSON::JSONParser::parseObject": C(buffers={"content": "length"}),
    Q + "JSON::JSONParser::parseArray": C(buffers={"content": "length"}),
}


def lookup(q, nparams=None):
    """contract for a qualified name; overloads are keyed 'name/<nparams>'"""
    if nparams is not None and (q + "/%d" % nparams) in CONTRACTS:
        return CONTRACTS[q + "/%d" % nparams]
    return CONTRACTS.get(q)
