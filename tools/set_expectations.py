#!/usr/bin/env python3
"""After tools/eval_seeds.py: turn the observed reports of every confirmed seed into its recorded expectation
(meta.json: expect, caught_by, summary, own_property_miss).  Reasons for misses come from seeded/MISS_REASONS.json."""
import json, os, re, sys
V = os.path.dirname(os.path.dirname(os.path.abspath(__file__)))
only = sys.argv[1] if len(sys.argv) > 1 else ""
reasons = json.load(open(os.path.join(V, "seeded", "MISS_REASONS.json")))
for d in sorted(os.listdir(os.path.join(V, "seeded"))):
    mp = os.path.join(V, "seeded", d, "meta.json")
    if only not in d or not os.path.exists(mp):
        continue
    m = json.load(open(mp))
    if not m.get("confirmed"):
        continue
    obs = {k: [r for r in v if r != "ANALYSIS-BROKEN"] for k, v in m.get("observed", {}).items()}
    obs = {k: v for k, v in obs.items() if v}
    m["expect"] = obs
    note = open(os.path.join(V, "seeded", d, "note.txt")).read()
    m["summary"] = re.sub(r"\s+", " ", note.split("\n")[0])[:200]
    if m["property"] not in obs:
        m["own_property_miss"] = reasons.get(d) or m.get("own_property_miss") or "not decided by the structural clauses of %s" % m["property"]
    else:
        m.pop("own_property_miss", None)
    m["caught_by"] = sorted("%s:%s" % (k, r) for k, v in obs.items() for r in v)
    json.dump(m, open(mp, "w"), indent=1, sort_keys=True)
    print(d, m["caught_by"] or "MISS", "| own miss" if "own_property_miss" in m else "")
