#!/usr/bin/env python3
"""usage: tools/obs.py <pid> [rule-substring] [--tier T]  -- print every obligation of a check (debug aid)"""
import importlib, os, sys, tempfile
sys.path.insert(0, os.path.dirname(os.path.dirname(os.path.abspath(__file__))))
from qlib.report import Ctx
pid = sys.argv[1]
sub = sys.argv[2] if len(sys.argv) > 2 and not sys.argv[2].startswith("--") else ""
tier = sys.argv[sys.argv.index("--tier") + 1] if "--tier" in sys.argv else "quick"
d = tempfile.mkdtemp(prefix="qv-obs-", dir="/dev/shm" if os.path.isdir("/dev/shm") else None)
ctx = Ctx(pid, tier, d, 0)
mod = importlib.import_module("rules." + pid)
for r in mod.run(ctx):
    if sub and sub not in r.rid:
        continue
    print("== %s (%d obligations, floor %s)" % (r.rid, len(r.obs), getattr(r, "floor", "?")))
    for o in r.obs:
        print("  [%s] %s | %s | %s | %s" % ("ok" if o.ok else "OPEN", o.fn_q, o.construct, o.why[:160], o.loc))
import shutil
shutil.rmtree(d, ignore_errors=True)
