#!/usr/bin/env python3
"""Confirm seeded changes and file them under /verif/seeded/<id>/.

usage: tools/confirm_seeds.py <srcdir> [<srcdir>..] [--jobs N] [--no-suite] [--tag w2]   (ids become <PID>-w2-<k>)
Each <srcdir> is a deliver/ directory written by a seeding agent (change<k>.diff, demo<k>.cpp, note<k>.txt) and must be
named .../<PID>/deliver.  For every change:
  1. a scratch git worktree of /repo at HEAD is created under /tmp (outside /repo and /verif) and removed afterwards;
  2. the diff is applied (git apply, else patch with fuzz) and re-exported against the current HEAD -> patch.diff;
  3. the demo is built against the changed and the unchanged headers: it must fail with the change and pass without;
  4. the library's own suite is built and run with the change: all tests must pass;
  5. seeded/<PID>-<k>/{patch.diff, demo.cpp, note.txt, meta.json} is written (meta.json: confirmation results).
Nothing is ever applied to /repo by this tool."""
import json
import os
import shutil
import subprocess
import sys
from concurrent.futures import ThreadPoolExecutor

VERIF = os.path.dirname(os.path.dirname(os.path.abspath(__file__)))
REPO = "/repo"


def sh(cmd, cwd=None, timeout=3600, env=None):
    p = subprocess.run(cmd, shell=True, cwd=cwd, capture_output=True, text=True, timeout=timeout, env=env)
    return p.returncode, (p.stdout + p.stderr)


def demo_run(src, inc, note, exe):
    flags = "-std=gnu++17 -O1 -g -fno-exceptions -pthread"
    if "fsanitize=thread" in note:
        flags += " -fsanitize=thread"
    elif "fsanitize" in note:
        flags += " -fsanitize=address,undefined -fno-sanitize-recover=undefined"
    rc, out = sh("g++ %s -I%s %s -o %s" % (flags, inc, src, exe))
    if rc != 0:
        return None, "compile failed: " + out[-600:]
    try:
        rc, out = sh("ASAN_OPTIONS=detect_leaks=1 %s" % exe, timeout=600)
    except subprocess.TimeoutExpired:
        return 124, "timeout"
    return rc, out[-1500:]


def one(job):
    pid, k, srcdir, wt, do_suite = job
    tag = "%s-%s%s" % (pid, (TAG + "-") if TAG else "", k)
    res = {"id": tag, "property": pid, "source": "seeding sub-agent (given only the property text and a scratch worktree)"}
    diff = os.path.join(srcdir, "change%s.diff" % k)
    demo = os.path.join(srcdir, "demo%s.cpp" % k)
    note = open(os.path.join(srcdir, "note%s.txt" % k)).read() if os.path.exists(os.path.join(srcdir, "note%s.txt" % k)) else ""
    sh("git checkout -- . && git clean -fdq -e _build", cwd=wt)
    rc, out = sh("git apply %s" % diff, cwd=wt)
    if rc != 0:
        rc, out = sh("patch -p1 -s -F3 < %s" % diff, cwd=wt)
        sh("find . -name '*.orig' -delete -o -name '*.rej' -delete", cwd=wt)
        if rc != 0:
            sh("git checkout -- .", cwd=wt)
            res["applies"] = False
            res["error"] = out[-400:]
            return res
        res["rebased"] = True
    res["applies"] = True
    rc, patch = sh("git diff -- Include", cwd=wt)
    res["files"] = [l[6:] for l in patch.splitlines() if l.startswith("+++ b/")]
    exe = "/tmp/qv-confirm/demo-%s" % tag
    rc_with, out_with = demo_run(demo, os.path.join(wt, "Include"), note, exe + "-with")
    res["demo_with_change"] = {"exit": rc_with, "tail": out_with[-500:]}
    if do_suite:
        rc, out = sh("cmake -G Ninja -B _build -DCMAKE_BUILD_TYPE=RelWithDebInfo -DCMAKE_CXX_FLAGS=-Wno-error >/dev/null 2>&1 && cmake --build _build -j4 >/dev/null 2>&1 && ctest --test-dir _build -j4 --timeout 900 2>&1 | tail -4", cwd=wt, timeout=7200)
        res["suite_with_change"] = out.strip().splitlines()[-3:]
        res["suite_passes"] = "100% tests passed" in out
    sh("git checkout -- .", cwd=wt)
    rc_wo, out_wo = demo_run(demo, os.path.join(wt, "Include"), note, exe + "-without")
    res["demo_without_change"] = {"exit": rc_wo, "tail": out_wo[-300:]}
    for e in (exe + "-with", exe + "-without"):
        if os.path.exists(e):
            os.unlink(e)
    fails_with = rc_with not in (0, None) or "FAIL" in out_with
    passes_wo = rc_wo == 0 and "FAIL" not in out_wo
    res["confirmed"] = bool(fails_with and passes_wo and (res.get("suite_passes", True)))
    d = os.path.join(VERIF, "seeded", tag)
    os.makedirs(d, exist_ok=True)
    open(os.path.join(d, "patch.diff"), "w").write(patch)
    shutil.copy(demo, os.path.join(d, "demo.cpp"))
    open(os.path.join(d, "note.txt"), "w").write(note)
    old = {}
    if os.path.exists(os.path.join(d, "meta.json")):
        old = json.load(open(os.path.join(d, "meta.json")))
    old.update(res)
    json.dump(old, open(os.path.join(d, "meta.json"), "w"), indent=1, sort_keys=True)
    return res


TAG = ""


def main():
    global TAG
    if "--tag" in sys.argv:
        TAG = sys.argv[sys.argv.index("--tag") + 1]
        sys.argv.remove("--tag")
        sys.argv.remove(TAG)
    args = [a for a in sys.argv[1:] if not a.startswith("--")]
    jobs_n = int(sys.argv[sys.argv.index("--jobs") + 1]) if "--jobs" in sys.argv else 4
    if "--jobs" in sys.argv:
        args.remove(str(jobs_n))
    do_suite = "--no-suite" not in sys.argv
    os.makedirs("/tmp/qv-confirm", exist_ok=True)
    todo = []
    for srcdir in args:
        pid = os.path.basename(os.path.dirname(os.path.abspath(srcdir)))
        for k in ("1", "2", "3", "4", "5"):
            if os.path.exists(os.path.join(srcdir, "change%s.diff" % k)):
                todo.append((pid, k, srcdir))
    wts = []
    for i in range(min(jobs_n, len(todo))):
        wt = "/tmp/qv-confirm/w%d" % i
        sh("git -C %s worktree remove --force %s" % (REPO, wt))
        rc, out = sh("git -C %s worktree add --detach %s HEAD" % (REPO, wt))
        if rc != 0:
            print("cannot create worktree", out)
            return 2
        wts.append(wt)
    # static assignment of jobs to worktrees
    buckets = [[] for _ in wts]
    for i, t in enumerate(todo):
        buckets[i % len(wts)].append(t + (wts[i % len(wts)], do_suite))

    def worker(b):
        out = []
        for j in b:
            try:
                r = one(j)
            except Exception as e:  # noqa
                r = {"id": "%s-%s" % (j[0], j[1]), "error": repr(e)}
            print(json.dumps({k: r.get(k) for k in ("id", "applies", "rebased", "confirmed", "suite_passes", "error")}), flush=True)
            out.append(r)
        return out
    with ThreadPoolExecutor(len(wts)) as ex:
        list(ex.map(worker, buckets))
    for wt in wts:
        sh("git -C %s worktree remove --force %s" % (REPO, wt))
    shutil.rmtree("/tmp/qv-confirm", ignore_errors=True)
    return 0


if __name__ == "__main__":
    sys.exit(main())
