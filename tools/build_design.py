#!/usr/bin/env python3
"""Assemble DESIGN.md from design/DESIGN.head.md, the rule modules (section 5), known_findings.jsonl (section 7 table),
seeded/*/meta.json (section 9 table) and design/DESIGN.tail.md.  Run after `check.py <id> --json-out` data is fresh:
it runs the 19 checks itself (quick tier, no evidence)."""
import importlib, json, os, re, subprocess, sys, tempfile
V = os.path.dirname(os.path.dirname(os.path.abspath(__file__)))
os.chdir(V)
sys.path.insert(0, V)
from claims import CLAIMS
tmp = tempfile.mkdtemp(prefix="qv-design-")
for p in sorted(CLAIMS):
    subprocess.run(["python3", "check.py", p, "--no-evidence", "--json-out", os.path.join(tmp, p + ".json")], stdout=subprocess.DEVNULL)
old = open("design/DESIGN-round0.md").read()
titles = {json.loads(l)["id"]: json.loads(l)["title"] for l in open("properties.jsonl")}
out = ["## 5. Per-property rules\n",
       "For every claimed property: what the check decides (the rule module's own description, which is also written to the evidence file), what it does not, the assumptions, and the rules with the number of instances (obligations) found on the current tree in the quick tier and the floor below which a run is ANALYSIS-BROKEN. A dagger marks rules that were not in the round-0 rule index and were introduced while the checks were built. `python3 tools/obs.py <id> [rule]` prints every obligation with its construct, reason and location.\n"]
for p in sorted(CLAIMS):
    m = importlib.import_module("rules." + p)
    d = json.load(open(os.path.join(tmp, p + ".json")))
    out.append("### %s — %s\n" % (p, titles[p]))
    out.append(m.META["explanation"].strip() + "\n")
    out.append("*Not decided:* %s.\n" % m.META.get("not_decided"))
    if m.META.get("assumptions"):
        out.append("*Assumptions:* " + "; ".join(m.META["assumptions"]) + ".\n")
    out.append("| rule | obligation | instances | floor |\n|---|---|---|---|")
    for r in d["rules"]:
        new = "" if (r["rule"] in old or r["rule"] in ("ZB-read", "ZB-call", "ZB-req", "ZB-ens", "ZB-inv")) else " †"
        out.append("| %s%s | %s | %d | %s |" % (r["rule"], new, r["text"].replace("|", "\\|"), r["instances"], r["floor"]))
    out.append("")
sec5 = "\n".join(out)
tot = caught = own = 0
st = "| seed | change (first line of the seeding agent's note) | reported by | own property |\n|---|---|---|---|\n"
for d in sorted(os.listdir("seeded")):
    mp = "seeded/%s/meta.json" % d
    if not os.path.exists(mp):
        continue
    m = json.load(open(mp))
    tot += 1
    cb = ", ".join(m.get("caught_by", [])) or "—"
    caught += bool(m.get("caught_by"))
    isown = m["property"] in m.get("expect", {})
    own += isown
    o = "reported" if isown else "not decided: " + m.get("own_property_miss", "")
    st += "| %s | %s | %s | %s |\n" % (d, m.get("summary", "").replace("|", "\\|")[:160], cb, o.replace("|", "\\|"))
rows = []
for line in open("known_findings.jsonl"):
    mm = re.match(r"fixed: property=(C\d+) ([0-9a-f]+) (\S+) (.*)", line.strip())
    if mm:
        rows.append(mm.groups())
ft = "| # | property | /repo commit | rule that reported it | construct and failing input |\n|---|---|---|---|---|\n"
for i, (p, sha, rule, what) in enumerate(rows, 1):
    ft += "| F%02d | %s | `%s` | %s | %s |\n" % (i, p, sha, rule, what.replace("|", "\\|"))
head = open("design/DESIGN.head.md").read()
tail = open("design/DESIGN.tail.md").read().replace("@@FIXTABLE@@", ft).replace("@@SEEDTABLE@@", st)
tail = tail.replace("@@SEEDCOUNTS@@", "%d of the %d seeded changes are reported by at least one check; %d by the check of their own property." % (caught, tot, own))
import importlib.util
def ncases(path):
    sp = importlib.util.spec_from_file_location("x", path); mo = importlib.util.module_from_spec(sp); sp.loader.exec_module(mo)
    return len(mo.CASES)
nmut, nben = ncases("selftest/mutants.py"), ncases("selftest/benign.py")
def fill(t):
    return t.replace("@@NFIX@@", str(len(rows))).replace("@@NMUT@@", str(nmut)).replace("@@NBEN@@", str(nben)).replace("@@NCASES@@", str(len(rows) + nmut + nben + tot)).replace("@@NSEED@@", str(tot))
head, tail = fill(head), fill(tail)
open("DESIGN.md", "w").write(head + "\n--------------------------------------------------------------------------\n\n" + sec5 + "\n" + tail)
import shutil
shutil.rmtree(tmp, ignore_errors=True)
print("DESIGN.md: %d fixes, %d seeds (%d reported, %d by own property)" % (len(rows), tot, caught, own))
