#!/usr/bin/env python3
"""usage: tools/make_seed_prompts.py <outdir> <wave-tag> [pid ...]
Writes one prompt file per property for a seeding sub-agent: ONLY the text of the property, the one-line summaries of the
changes earlier agents delivered for it (their own words, from seeded/<id>/note.txt), and the working instructions.  Nothing
else from /verif goes into the prompt."""
import json, os, re, sys
HERE = os.path.dirname(os.path.dirname(os.path.abspath(__file__)))
out, tag = sys.argv[1], sys.argv[2]
only = sys.argv[3:]
os.makedirs(out, exist_ok=True)
props = [json.loads(l) for l in open(os.path.join(HERE, "properties.jsonl"))]
for p in props:
    pid = p["id"]
    if only and pid not in only:
        continue
    earlier = []
    for d in sorted(os.listdir(os.path.join(HERE, "seeded"))):
        if not d.startswith(pid + "-") or not os.path.isdir(os.path.join(HERE, "seeded", d)):
            continue
        note = os.path.join(HERE, "seeded", d, "note.txt")
        if os.path.exists(note):
            txt = " ".join(open(note).read().split())
            earlier.append("   - %s" % txt[:230])
    wd = "/tmp/seed/%s" % pid
    body = """You are helping test a verification effort for the open-source C++ header-only library Qentem-Engine (template rendering engine with its own JSON parser, number conversion, BigInt, hash-array containers, expression evaluator). You have your own scratch git worktree of the library at {wd} (headers under Include/, tests under Tests/, docs under Documentation/). Work ONLY inside {wd}. Do not read or touch /repo, /verif or any other directory outside {wd} (except system headers/tools). There is no network.

Here is a semantic property of the library that should always hold:

  Property {pid}: {title}
  Statement: {statement}
  Quantified over: {quant}

Earlier rounds already collected the following changes for this property. Do NOT repeat them or close variants of them (same function and same kind of slip); look for different functions, different mechanisms, different circumstances. Prefer changes whose wrongness is visible in the structure of the code (a missing or misplaced step, a wrong operand or member, a dropped case, a stale pointer, a mismatched pair of sites, a guard on the wrong quantity) over purely numeric slips:
{earlier}

Your job: produce up to THREE independent, realistic code changes (bugs a maintainer could plausibly introduce during a refactor, optimisation or feature addition) to the library headers under {wd}/Include that each BREAK this property, while the library still compiles and the complete existing test suite still passes. Each change must need something specific to manifest - an unusual input, a particular multi-step sequence of operations, a particular configuration/character width, or two cooperating sites that each look fine alone - NOT something ordinary use (or the existing tests) would expose at once. Prefer small changes (1-15 lines). The three changes should be of different kinds and touch different functions where possible. Do not just change test files; do not add new public API only to break it; the change must be to existing library behaviour.

How to build and run the existing tests (must all 15 pass with each change applied alone):
  cd {wd} && cmake -G Ninja -B _build -DCMAKE_BUILD_TYPE=RelWithDebInfo -DCMAKE_CXX_FLAGS=-Wno-error >/dev/null && cmake --build _build -j4 && ctest --test-dir _build -j4 --timeout 900
(Use -j4 at most: other jobs share this machine.)

For each change k = 1..3 deliver, under {wd}/deliver/:
  - change<k>.diff : a unified diff (git diff format, paths relative to the repository root, applies with `git apply` to a clean checkout of HEAD) containing ONLY the library change.
  - demo<k>.cpp    : a small standalone C++17 program that includes the library headers (compile with: g++ -std=gnu++17 -O1 -g -I{wd}/Include -fno-exceptions demo<k>.cpp -o demo<k>; you may add -fsanitize=address,undefined if the failure is a memory error) and exits 0 / prints PASS on the unmodified library but exits non-zero / prints FAIL (or is reported by the sanitizer) with the change applied.
  - note<k>.txt    : 3-8 lines: what the change is, why it breaks the property, what specific circumstance is needed for it to manifest, and the exact commands you ran with their observed results (suite: 15/15 passed with change; demo passes without and fails with).
Verify everything yourself: for each change, start from a clean tree (git -C {wd} checkout -- Include), apply the diff, rebuild, run ctest (all 15 must pass), build and run the demo (must fail), then revert and confirm the demo passes on the clean tree. Never use `git stash` (the stash is shared between worktrees of one repository): save a change with `git diff > file` and drop it with `git checkout -- Include`. Leave the worktree clean (git checkout -- Include) at the end, with only the deliver/ directory (and _build) left. If you cannot find three, deliver as many as you can verify. If, while exploring, you notice that the UNMODIFIED library already violates the property for some input, say so in your summary (with the input), but do not use that input in a demo. Finish with a short summary listing the delivered files.
""".format(wd=wd, pid=pid, title=p["title"], statement=p["statement"], quant=p["quantifier"]["text"], earlier="\n".join(earlier) or "   (none)")
    open(os.path.join(out, pid + ".txt"), "w").write(body)
    print(pid, len(earlier), "earlier changes")
