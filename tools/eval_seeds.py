#!/usr/bin/env python3
"""Run every claimed check against every confirmed seeded change (scratch copies, QENTEM_REPO) and print/record which
rules fire.  usage: tools/eval_seeds.py [--only SUBSTR] [--own]   (--own: only the check of the seed's own property)
Writes seeded/<id>/meta.json: "observed": {pid: [rules]} for checks that reported a violation."""
import json, os, re, shutil, subprocess, sys, tempfile
from concurrent.futures import ThreadPoolExecutor
VERIF = os.path.dirname(os.path.dirname(os.path.abspath(__file__)))
sys.path.insert(0, VERIF)
from claims import CLAIMS
REPO = "/repo"
only = sys.argv[sys.argv.index("--only") + 1] if "--only" in sys.argv else ""
own = "--own" in sys.argv


def run(d):
    mp = os.path.join(VERIF, "seeded", d, "meta.json")
    meta = json.load(open(mp))
    if not meta.get("confirmed"):
        return d, None
    t = tempfile.mkdtemp(prefix="qv-eval-", dir="/tmp")
    try:
        shutil.copytree(os.path.join(REPO, "Include"), os.path.join(t, "Include"))
        shutil.copytree(os.path.join(REPO, "Documentation"), os.path.join(t, "Documentation"))
        p = subprocess.run("patch -p1 -s -F3 < %s" % os.path.join(VERIF, "seeded", d, "patch.diff"), shell=True, cwd=t, capture_output=True, text=True)
        if p.returncode:
            return d, "patch failed"
        obs = {}
        env = dict(os.environ, QENTEM_REPO=t)
        for pid in ([meta["property"]] if own else sorted(CLAIMS)):
            q = subprocess.run(["python3", os.path.join(VERIF, "check.py"), pid, "--no-evidence"], cwd=VERIF, env=env, capture_output=True, text=True)
            fired = sorted(set(re.findall(r"^  (\S+) ", q.stdout, re.M)))
            if q.returncode == 1:
                obs[pid] = fired
            elif q.returncode != 0:
                obs[pid] = ["ANALYSIS-BROKEN"]
        meta["observed"] = obs
        json.dump(meta, open(mp, "w"), indent=1, sort_keys=True)
        return d, obs
    finally:
        shutil.rmtree(t, ignore_errors=True)


ds = sorted(x for x in os.listdir(os.path.join(VERIF, "seeded")) if only in x and os.path.exists(os.path.join(VERIF, "seeded", x, "meta.json")))
with ThreadPoolExecutor(8) as ex:
    for d, obs in ex.map(run, ds):
        print(d, json.dumps(obs))
