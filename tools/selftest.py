#!/usr/bin/env python3
"""Sensitivity / silence self-test of the checks on scratch copies of the library (never on /repo itself).

usage: tools/selftest.py [--only SUBSTR] [--jobs N] [--kinds fixed,seeded,mutant,benign]

Case sources
  fixed   every "fixed:" line of known_findings.jsonl: the repair commit is reverse-applied to a scratch copy; the check of
          that property must report a violation again, and name the rule recorded in the line
  seeded  seeded/<id>/patch.diff with seeded/<id>/meta.json: {"expect": {"<pid>": ["<rule>", ..]}} must be reported,
          {"expect_miss": "<reason>"} must stay silent (a documented miss)
  mutant  selftest/mutants.py: hand-written single-site edits (old text -> new text) with the rule that must fire
  benign  selftest/benign.py: behaviour-preserving edits; every listed check must stay silent (no VIOLATION, no ANALYSIS-BROKEN)
Each case runs `check.py <pid> --no-evidence` with QENTEM_REPO pointing at its own scratch copy under /tmp, removed afterwards.
Results: selftest/RESULTS.json and a table on stdout.  Exit 0 when every case met its expectation, 1 otherwise."""
import importlib.util
import json
import os
import re
import shutil
import subprocess
import sys
import tempfile
from concurrent.futures import ThreadPoolExecutor

VERIF = os.path.dirname(os.path.dirname(os.path.abspath(__file__)))
REPO = "/repo"


def sh(cmd, cwd=None, env=None, timeout=1800):
    p = subprocess.run(cmd, shell=True, cwd=cwd, capture_output=True, text=True, env=env, timeout=timeout)
    return p.returncode, p.stdout + p.stderr


def load_py(path, name):
    if not os.path.exists(path):
        return []
    spec = importlib.util.spec_from_file_location(name, path)
    mod = importlib.util.module_from_spec(spec)
    spec.loader.exec_module(mod)
    return mod.CASES


def cases(kinds):
    out = []
    if "fixed" in kinds:
        for line in open(os.path.join(VERIF, "known_findings.jsonl")):
            m = re.match(r"fixed: property=(C\d+) ([0-9a-f]{7,}) (\S+)", line)
            if m:
                rules = [x for x in re.split(r"[/+]", m.group(3)) if x]
                out.append({"kind": "fixed", "id": "fixed-%s-%s" % (m.group(1), m.group(2)), "revert": m.group(2), "expect": {m.group(1): rules},
                            "what": line.strip()[len("fixed: "):][:140]})
    if "seeded" in kinds:
        sd = os.path.join(VERIF, "seeded")
        for d in sorted(os.listdir(sd)) if os.path.isdir(sd) else []:
            mp = os.path.join(sd, d, "meta.json")
            if not os.path.exists(mp):
                continue
            meta = json.load(open(mp))
            if not meta.get("confirmed"):
                continue
            c = {"kind": "seeded", "id": "seeded-" + d, "patch": os.path.join(sd, d, "patch.diff"), "what": meta.get("summary", "")[:140]}
            c["expect"] = meta.get("expect") or {}
            if meta.get("own_property_miss"):
                if meta["property"] in (meta.get("declines") or []):
                    c["may_break"] = list(meta["declines"])     # the check answers ANALYSIS-BROKEN with a reason: allowed, a violation is not
                else:
                    c["silent"] = [meta["property"]]
                c["miss"] = meta["own_property_miss"]
            out.append(c)
    if "mutant" in kinds:
        for c in load_py(os.path.join(VERIF, "selftest", "mutants.py"), "mutants"):
            out.append({"kind": "mutant", "id": "mutant-" + c["id"], "edits": c["edits"], "expect": c["expect"], "what": c.get("what", "")})
    if "benign" in kinds:
        for c in load_py(os.path.join(VERIF, "selftest", "benign.py"), "benign"):
            out.append({"kind": "benign", "id": "benign-" + c["id"], "edits": c["edits"], "silent": c["silent"], "may_break": c.get("may_break", []), "what": c.get("what", "")})
    return out


def run_case(c):
    d = tempfile.mkdtemp(prefix="qv-selftest-", dir="/tmp")
    res = {"id": c["id"], "kind": c["kind"], "what": c.get("what", "")}
    try:
        shutil.copytree(os.path.join(REPO, "Include"), os.path.join(d, "Include"))
        shutil.copytree(os.path.join(REPO, "Documentation"), os.path.join(d, "Documentation"))
        if "revert" in c:
            rc, diff = sh("git -C %s show %s -- Include" % (REPO, c["revert"]))
            open(os.path.join(d, "p.diff"), "w").write(diff)
            rc, out = sh("patch -R -p1 -s -F3 < p.diff", cwd=d)
            if rc != 0:
                res.update(status="skipped", detail="the repair no longer reverse-applies to the current tree (later commits touch the same lines)")
                return res
        if "patch" in c:
            rc, out = sh("patch -p1 -s -F3 < %s" % c["patch"], cwd=d)
            if rc != 0:
                res.update(status="skipped", detail="patch does not apply to the current tree")
                return res
        for ed in c.get("edits", []):
            path, old, new = ed[0], ed[1], ed[2]
            p = os.path.join(d, "Include", path)
            s = open(p).read()
            if s.count(old) < 1:
                res.update(status="skipped", detail="edit anchor not found in %s" % path)
                return res
            open(p, "w").write(s.replace(old, new) if len(ed) > 3 and ed[3] == "all" else s.replace(old, new, 1))
        env = dict(os.environ, QENTEM_REPO=d)
        # the edited tree must still compile (instantiation driver, char width)
        rc, out = sh("clang++ -std=gnu++17 -fsyntax-only -Wno-everything -I%s/Include %s/drivers/inst.cpp" % (d, VERIF))
        if rc != 0:
            res.update(status="skipped", detail="edited tree does not compile: " + out[-300:])
            return res
        ok = True
        details = []
        for pid, rules in (c.get("expect") or {}).items():
            rc, out = sh("python3 %s/check.py %s --no-evidence" % (VERIF, pid), env=env, cwd=VERIF)
            fired = sorted(set(re.findall(r"^  (\S+) ", out, re.M)))
            hit = rc == 1 and (not rules or any(r in fired for r in rules))
            details.append("%s rc=%d fired=%s want=%s" % (pid, rc, fired, rules))
            ok = ok and hit
        for pid in c.get("silent") or []:
            rc, out = sh("python3 %s/check.py %s --no-evidence" % (VERIF, pid), env=env, cwd=VERIF)
            fired = sorted(set(re.findall(r"^  (\S+) ", out, re.M)))
            details.append("%s rc=%d fired=%s want=silent" % (pid, rc, fired))
            ok = ok and rc == 0
        for pid in c.get("may_break") or []:
            # a correct but unfamiliar form: the check may decline (exit 2, ANALYSIS-BROKEN with a reason) but must not report a violation
            rc, out = sh("python3 %s/check.py %s --no-evidence" % (VERIF, pid), env=env, cwd=VERIF)
            reason = re.findall(r"^ANALYSIS-BROKEN \S+ (.*)", out, re.M)
            details.append("%s rc=%d (%s) want=no violation" % (pid, rc, (reason[0][:80] if reason else "passes")))
            ok = ok and rc in (0, 2)
        res.update(status="ok" if ok else "UNEXPECTED", detail="; ".join(details))
        if c.get("miss"):
            res["documented_miss"] = c["miss"]
        return res
    finally:
        shutil.rmtree(d, ignore_errors=True)


def main():
    kinds = "fixed,seeded,mutant,benign"
    if "--kinds" in sys.argv:
        kinds = sys.argv[sys.argv.index("--kinds") + 1]
    only = sys.argv[sys.argv.index("--only") + 1] if "--only" in sys.argv else ""
    jobs = int(sys.argv[sys.argv.index("--jobs") + 1]) if "--jobs" in sys.argv else 8
    cs = [c for c in cases(kinds.split(",")) if only in c["id"]]
    with ThreadPoolExecutor(jobs) as ex:
        results = list(ex.map(run_case, cs))
    bad = 0
    for r in results:
        print("%-10s %-34s %s" % (r["status"], r["id"], r.get("detail", "")[:200]))
        if r["status"] == "UNEXPECTED":
            bad += 1
    summary = {"cases": len(results), "ok": sum(r["status"] == "ok" for r in results), "skipped": sum(r["status"] == "skipped" for r in results), "unexpected": bad}
    print(json.dumps(summary))
    rp = os.path.join(VERIF, "selftest", "RESULTS.json")
    head = sh("git -C %s rev-parse --short HEAD" % REPO)[1].strip()
    if "--merge" in sys.argv and os.path.exists(rp):
        # a partial run (some kinds, or --only): replace the cases that were run in the recorded results, keep the others
        # (cases that no longer exist are dropped)
        old = json.load(open(rp))
        ran = {r["id"]: r for r in results}
        live = set(c["id"] for c in cases("fixed,seeded,mutant,benign".split(",")))
        merged = [ran.pop(r["id"], r) for r in old["results"] if r["id"] in live] + list(ran.values())
        msum = {"cases": len(merged), "ok": sum(r["status"] == "ok" for r in merged), "skipped": sum(r["status"] == "skipped" for r in merged),
                "unexpected": sum(r["status"] == "UNEXPECTED" for r in merged)}
        json.dump({"repo_head": head, "summary": msum, "results": merged}, open(rp, "w"), indent=1)
        print("merged: " + json.dumps(msum))
    elif not only:
        os.makedirs(os.path.join(VERIF, "selftest"), exist_ok=True)
        json.dump({"repo_head": head, "summary": summary, "results": results}, open(rp, "w"), indent=1)
    return 1 if bad else 0


if __name__ == "__main__":
    sys.exit(main())
