#!/usr/bin/env python3
"""Record the parameter names every E-ZONE contract was written against (tables/contract_params.json).  At run time a contract
whose function still has the same number of parameters but other names is translated by position (a renamed parameter is not a
reason to stop analysing).  Re-run after reviewing contracts against a changed signature."""
import json, os, sys, tempfile
V = os.path.dirname(os.path.dirname(os.path.abspath(__file__)))
sys.path.insert(0, V)
from qlib.report import Ctx
from tables.contracts import CONTRACTS
d = tempfile.mkdtemp(prefix="qv-snap-")
m = Ctx("C01", "quick", d, 0).pattern()
out = {}
for key in sorted(CONTRACTS):
    q = key.split("/")[0]
    np = int(key.split("/")[1]) if "/" in key else None
    fs = [f for f in m.fns(q, pattern=True, required=False) if np is None or len(f.params) == np]
    if fs:
        out[key] = [[p["n"] for p in f.params] for f in fs][0]
json.dump(out, open(os.path.join(V, "tables", "contract_params.json"), "w"), indent=1, sort_keys=True)
print(len(out), "contracts recorded")
import shutil; shutil.rmtree(d, ignore_errors=True)
