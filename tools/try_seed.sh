#!/bin/sh
# usage: try_seed.sh <diff> <pid> [pid..]   apply a seeded change to /repo, run the quick checks, revert
D=$1; shift
cd /repo || exit 2
if ! git apply --check "$D" 2>/dev/null; then
  if ! patch -p1 --dry-run -s -F3 < "$D" >/dev/null 2>&1; then echo "SEED-DOES-NOT-APPLY $D"; exit 3; fi
  patch -p1 -s -F3 < "$D"
else
  git apply "$D"
fi
for p in "$@"; do
  (cd /verif && python3 check.py $p --no-evidence 2>&1 | grep -E "^VIOLATION|^  |^ANALYSIS|^C[0-9][0-9] tier" | cut -c1-260)
done
git -C /repo checkout -- . ; find /repo -name "*.orig" -o -name "*.rej" | xargs -r rm -f
