#!/usr/bin/env python3
"""Driver of the static checks.

  python3 check.py C05 [--tier quick|thorough]     decide one property on /repo's working tree
  python3 check.py C05 --explain <replay.json>     print one recorded violation verbosely
  python3 check.py --list

Exit 0: every obligation discharged (or only known findings, each printed as KNOWN-FINDING).
Exit 1: `VIOLATION property=<id> replay=<path>` for each undischarged obligation that is not a known finding.
Exit 2: `ANALYSIS-BROKEN property=<id> ...`: an anchor vanished, a floor was missed, a unit failed to parse.
"""
import argparse
import importlib
import json
import os
import shutil
import sys
import tempfile
import time
import traceback

HERE = os.path.dirname(os.path.abspath(__file__))
sys.path.insert(0, HERE)

from qlib import model as qmodel  # noqa: E402
from qlib.model import AnalysisBroken  # noqa: E402
from qlib.report import Rule, Ctx  # noqa: E402


def load_known():
    p = os.path.join(HERE, "known_findings.jsonl")
    out = []
    if os.path.exists(p):
        for line in open(p):
            line = line.strip()
            if line and not line.startswith("#") and not line.startswith("fixed:"):
                out.append(json.loads(line))
    return out


def match_known(known, pid, ob):
    for k in known:
        if k.get("status") != "known":
            continue
        if k["property"] != pid or k["rule"] != ob.rule:
            continue
        # the thorough tier repeats every rule under more build configurations and tags the function with " [cfg]":
        # the same construct of the same function is the same finding in every configuration
        if k["function"] != ob.fn_q and k["function"] != ob.fn_q.split(" [")[0]:
            continue
        if k["construct"] != ob.construct:
            continue
        if "ordinal" in k and k["ordinal"] != ob.ordinal:
            continue
        return k
    return None


THOROUGH_CONFIGS = [("scalar", "char32-scalar"), ("avx2", "char16-avx2"), ("sse2-noescape", "wchar"), ("char16", "char16"), ("char32", "char32")]


def main():
    ap = argparse.ArgumentParser()
    ap.add_argument("pid", nargs="?")
    ap.add_argument("--tier", default=os.environ.get("VERIF_TIER", "quick"))
    ap.add_argument("--explain")
    ap.add_argument("--list", action="store_true")
    ap.add_argument("--no-evidence", action="store_true", help="do not write evidence (used by self-tests on scratch copies)")
    ap.add_argument("--json-out", help="write the raw result summary to this file")
    a = ap.parse_args()
    if a.list:
        for f in sorted(os.listdir(os.path.join(HERE, "rules"))):
            if f.startswith("C") and f.endswith(".py"):
                print(f[:-3])
        return 0
    pid = a.pid
    if a.explain:
        d = json.load(open(a.explain))
        print(json.dumps(d, indent=1))
        return 0
    tier = a.tier if a.tier in ("quick", "thorough") else "quick"
    seed = int(os.environ.get("VERIF_SEED", "0") or 0)
    t0 = time.time()
    os.makedirs(os.path.join(HERE, ".run"), exist_ok=True)
    rundir = tempfile.mkdtemp(prefix="qv-%s-" % pid, dir=os.path.join(HERE, ".run"))
    ctx = Ctx(pid, tier, rundir, seed)
    rc = 0
    rules = []
    broken = []
    try:
        mod = importlib.import_module("rules." + pid)
        rules = mod.run(ctx) or []
        if tier == "thorough" and not getattr(mod, "OWN_CONFIG_SWEEP", False):
            # the same rules again on the other build configurations: code under #if QENTEM_AVX2 / scalar / no-escape and
            # the instantiations for the wide character types are only visible there
            for (pc, ic) in THOROUGH_CONFIGS:
                ctx.pattern_default, ctx.inst_default = pc, ic
                more = mod.run(ctx) or []
                for r in more:
                    r.rid_config = "%s/%s" % (pc, ic)
                    for ob in r.obs:
                        ob.fn_q = "%s [%s|%s]" % (ob.fn_q, pc, ic)
                rules += more
            ctx.pattern_default, ctx.inst_default = "sse2", "sse2"
        # a rule with no instance and no floor decides nothing on this tree: it is not reported as a rule
        rules = [r for r in rules if r.obs or r.floor or r.broken]
        for r in rules:
            r.finish()
            floor = r.floor
            if floor is not None and getattr(r, "rid_config", None):
                floor = int(floor * 0.8)   # other configurations compile a few call sites away (#if); the hand-confirmed count is the default configuration's
            if floor is not None and len(r.obs) < floor:
                broken.append("rule %s matched %d instances, fewer than the %d confirmed by hand" % (r.rid, len(r.obs), r.floor))
            broken.extend("rule %s: %s" % (r.rid, b) for b in r.broken)
    except AnalysisBroken as e:
        broken.append(str(e))
    except Exception:
        broken.append("internal error: " + traceback.format_exc()[-1500:])
    finally:
        shutil.rmtree(rundir, ignore_errors=True)

    known = load_known()
    violations = []
    known_hits = []
    n_ob = n_ok = 0
    for r in rules:
        for ob in r.obs:
            n_ob += 1
            if ob.ok:
                n_ok += 1
                continue
            if ob.status == "suppressed":
                n_ok += 1
                continue
            k = match_known(known, pid, ob)
            if k:
                known_hits.append((ob, k))
            else:
                violations.append(ob)

    evdir = os.path.join(HERE, "evidence")
    os.makedirs(os.path.join(evdir, "replay"), exist_ok=True)
    if not a.no_evidence:
        for f in os.listdir(os.path.join(evdir, "replay")):
            if f.startswith(pid + "-"):
                os.unlink(os.path.join(evdir, "replay", f))
    printed = set()
    for ob, k in known_hits:
        key = (k["rule"], k["function"], k["construct"], k.get("ordinal"))
        if key in printed:
            continue      # the same listed finding seen again under another build configuration of the thorough tier
        printed.add(key)
        n_cfg = sum(1 for (o2, k2) in known_hits if k2 is k)
        print("KNOWN-FINDING: property=%s %s %s %s%s -- %s" % (pid, ob.rule, k["function"], ob.construct, (" (in %d build configurations)" % n_cfg) if n_cfg > 1 else "", k.get("fails", "")))
    if broken:
        for b in broken:
            print("ANALYSIS-BROKEN property=%s %s" % (pid, b))
        rc = 2
    if violations:
        # a concrete violation is reported as such even when another rule of the same check could not complete
        rc = 1
        for i, ob in enumerate(violations):
            path = os.path.join(evdir, "replay", "%s-%d.json" % (pid, i))
            if a.no_evidence:
                path = os.path.join(tempfile.gettempdir(), "qv-replay-%s-%d-%d.json" % (pid, os.getpid(), i))
            json.dump(ob.to_json(pid), open(path, "w"), indent=1)
            print("VIOLATION property=%s replay=%s" % (pid, path))
            print("  %s %s at %s: %s -- %s" % (ob.rule, ob.fn_q, ob.loc, ob.construct, ob.why))
    wall = time.time() - t0

    summary = {
        "property_id": pid, "tier": tier, "rc": rc, "broken": broken,
        "violations": [ob.to_json(pid) for ob in violations],
        "known": [ob.to_json(pid) for ob, _ in known_hits],
        "rules": [r.summary() for r in rules],
    }
    if a.json_out:
        json.dump(summary, open(a.json_out, "w"), indent=1)

    if not a.no_evidence:
        samples = []
        nontrivial = set()
        for r in rules:
            for ob in r.obs:
                if ob.nontrivial:
                    nontrivial.add((ob.rule, ob.fn_q, ob.construct, ob.ordinal))
            for ob in r.obs[:3]:
                samples.append({"rule": ob.rule, "function": ob.fn_q, "at": ob.loc, "construct": ob.construct,
                                "verdict": "discharged" if ob.ok else ob.status, "by": ob.why})
        meta = getattr(mod, "META", {}) if "mod" in dir() else {}
        ev = {
            "property_id": pid, "tier": tier, "seed": seed, "level": "other",
            "coverage": {
                "explanation": meta.get("explanation", "static analysis of /repo's current sources; see DESIGN.md"),
                "obligations": n_ob, "discharged": n_ok,
                "evaluations": n_ob, "distinct_nontrivial": len(nontrivial),
                "rule": "one evaluation = one rule instance (obligation) found in the current sources; non-trivial = its discharge needed a path fact, a table comparison or a structural match (counted by the engines), distinct by (rule, function, construct, ordinal)",
                "samples": samples[:40],
                "rules": [r.summary() for r in rules],
                "units": ctx.units_log, "configs": sorted(set(u["config"] for u in ctx.units_log)),
                "functions_analysed": ctx.functions_analysed(),
                "known_findings": ["%s %s %s" % (ob.rule, ob.fn_q, ob.construct) for ob, _ in known_hits],
                "suppressions": [s for r in rules for s in r.suppressions],
                "analysis_broken": broken,
                "not_decided": meta.get("not_decided", ""),
                "selftest": ctx.selftest_log,
                "exhaustive": False,
            },
            "assumptions": meta.get("assumptions", []),
            "wall_s": round(wall, 2),
            "violations": len(violations),
        }
        json.dump(ev, open(os.path.join(evdir, pid + ".json"), "w"), indent=1)
    print("%s tier=%s rules=%d obligations=%d discharged=%d known=%d violations=%d broken=%d wall=%.1fs" %
          (pid, tier, len(rules), n_ob, n_ok, len(known_hits), len(violations), len(broken), wall))
    return rc


if __name__ == "__main__":
    sys.exit(main())
