#!/usr/bin/env python3
"""Regenerates MANIFEST.json from the claims table (claims.py).  Run after adding a rules/Cxx.py."""
import json
import os

from claims import CLAIMS, NA

HERE = os.path.dirname(os.path.abspath(__file__))
PIDS = ["C%02d" % i for i in range(1, 21)]


def main():
    checks = []
    for pid in PIDS:
        if pid not in CLAIMS:
            continue
        c = CLAIMS[pid]
        checks.append({
            "property_id": pid,
            "quick_cmd": "python3 check.py %s --tier quick" % pid,
            "thorough_cmd": "python3 check.py %s --tier thorough" % pid,
            "evidence_file": "evidence/%s.json" % pid,
            "replay_cmd_template": "python3 check.py %s --explain {path}" % pid,
            "engine": "qcheck",
            "level_claimed": {"category": "other", "text": c["text"], "design_ref": c["ref"]},
            "level_note": c["note"],
            "technique": c["technique"],
        })
    na = []
    for pid in PIDS:
        if pid in CLAIMS:
            continue
        na.append({"property_id": pid,
                   "reason": NA.get(pid, "check not built yet in this round; design in DESIGN.md section 4")})
    m = {
        "version": 1,
        "setup_cmd": "make -C tool",
        "hooks": {"guard": "QENTEM_VERIF",
                  "enable": "none: the analyses read unmodified sources; no hook is compiled in",
                  "baseline_off_cmd": "cmake --build /repo/_build && ctest --test-dir /repo/_build -j8 --timeout 900",
                  "source_commits": [], "add_only": True},
        "engines": [{"name": "qcheck", "path": "tool/qcheck.cc + qlib/ + rules/",
                     "serves_properties": sorted(CLAIMS),
                     "kind_free_text": "libTooling exporter of the resolved program (AST with resolved callees, clang "
                                       "CFG, record layouts, evaluated constants) + Python static-analysis engines "
                                       "(difference-bound abstract interpretation, typestate, must-pass-through, "
                                       "table checks)"}],
        "checks": checks,
        "notes": "Static analysis only. Exit 0 = all obligations discharged (KNOWN-FINDING lines for listed findings); "
                 "exit 1 = VIOLATION lines; exit 2 = ANALYSIS-BROKEN (anchor vanished / floor missed / unit failed to "
                 "parse). Known findings: known_findings.jsonl. Concrete replays of genuine defects: replays/.",
        "not_applicable": na,
    }
    json.dump(m, open(os.path.join(HERE, "MANIFEST.json"), "w"), indent=1)
    print("claimed:", sorted(CLAIMS), "not claimed:", [x["property_id"] for x in na])


if __name__ == "__main__":
    main()
